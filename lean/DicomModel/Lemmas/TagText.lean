/-
Lemmas for the tag / selector text syntax (C14): hexadecimal print/parse, the tag parser as a
function of the text's shape, UTF-8 facts needed for panic-freedom, splitting on `.`, decimal items.
-/
import DicomModel.Model.TagText
import DicomModel.Lemmas.Digits
namespace Dicom.TagText

/-! ### hexadecimal digits -/

theorem hexVal_hexDigit (u : Bool) (n : Nat) (h : n < 16) : hexVal (hexDigit u n) = some n := by
  unfold hexVal hexDigit
  cases u <;> simp <;> split <;> (try split) <;> (try split) <;> (try split) <;>
    first | omega | (simp; omega) | simp_all

theorem isHexDigit_iff (b : Nat) : isHexDigit b = true ↔ (hexVal b).isSome = true := by
  unfold isHexDigit hexVal
  simp only [Bool.or_eq_true, Bool.and_eq_true, decide_eq_true_eq]
  split
  · simp; omega
  · split
    · simp; omega
    · split
      · simp; omega
      · simp; omega

theorem hexVal_lt {b v : Nat} (h : hexVal b = some v) : v < 16 ∧ b < 128 := by
  unfold hexVal at h
  split at h
  · simp at h; omega
  · split at h
    · simp at h; omega
    · split at h
      · simp at h; omega
      · simp at h

theorem not_cont_of_hexVal {b v : Nat} (h : hexVal b = some v) : isContinuation b = false := by
  have := (hexVal_lt h).2
  unfold isContinuation; simp; omega

/-- the parser's digit accumulation is the positional value -/
theorem fromHex4_eq (a b c d : Nat) : fromHex4 [a, b, c, d] = specHex4 a b c d := by
  unfold fromHex4 specHex4
  cases ha : hexVal a <;> cases hb : hexVal b <;> cases hc : hexVal c <;> cases hd : hexVal d <;>
    simp [ha, hb, hc, hd]
  omega

theorem all_hex_iff (a b c d : Nat) :
    [a, b, c, d].all isHexDigit = true ↔ (specHex4 a b c d).isSome = true := by
  simp only [List.all_cons, List.all_nil, Bool.and_true, Bool.and_eq_true, isHexDigit_iff]
  unfold specHex4
  cases hexVal a <;> cases hexVal b <;> cases hexVal c <;> cases hexVal d <;> simp

theorem specHex4_hex4 (u : Bool) (n : Nat) (h : n < 65536) :
    specHex4 (hexDigit u (n / 4096 % 16)) (hexDigit u (n / 256 % 16)) (hexDigit u (n / 16 % 16))
      (hexDigit u (n % 16)) = some n := by
  unfold specHex4
  rw [hexVal_hexDigit u _ (by omega), hexVal_hexDigit u _ (by omega), hexVal_hexDigit u _ (by omega),
    hexVal_hexDigit u _ (by omega)]
  simp only [Option.some.injEq]
  omega

theorem specHex4_lt {a b c d n : Nat} (h : specHex4 a b c d = some n) : n < 65536 := by
  unfold specHex4 at h
  cases ha : hexVal a <;> cases hb : hexVal b <;> cases hc : hexVal c <;> cases hd : hexVal d <;>
    simp [ha, hb, hc, hd] at h
  have := (hexVal_lt ha).1; have := (hexVal_lt hb).1; have := (hexVal_lt hc).1
  have := (hexVal_lt hd).1
  omega

/-! ### `parse_tag_part` by the shape of its input -/

/-- "index 4 is a char boundary" seen from the remainder: it is empty or does not start with a
continuation byte -/
def restOk : Bytes → Bool
  | [] => true
  | r :: _ => !isContinuation r

theorem boundary4 (a b c d : Nat) (rest : Bytes) :
    isCharBoundary (a :: b :: c :: d :: rest) 4 = restOk rest := by
  unfold isCharBoundary restOk
  cases rest <;> simp

theorem parseTagPart_cons4 (a b c d : Nat) (rest : Bytes) :
    parseTagPart (a :: b :: c :: d :: rest) =
      if restOk rest = true then
        match specHex4 a b c d with
        | some n => .ok (n, rest)
        | none => .err .number
      else .err .number := by
  unfold parseTagPart
  rw [boundary4]
  by_cases hr : restOk rest = true
  · simp only [hr, Bool.not_true, Bool.false_eq_true, if_false, if_true, List.take_succ_cons,
      List.take_zero, List.drop_succ_cons, List.drop_zero]
    cases hs : specHex4 a b c d with
    | none =>
      have : ¬ ([a, b, c, d].all isHexDigit = true) := by
        rw [all_hex_iff, hs]; simp
      simp [this]
    | some n =>
      have : [a, b, c, d].all isHexDigit = true := by rw [all_hex_iff, hs]; rfl
      simp only [this, Bool.not_true, Bool.false_eq_true, if_false, fromHex4_eq, hs]
  · simp [hr]

theorem parseTagPart_short {s : Bytes} (h : s.length < 4) : parseTagPart s = .err .number := by
  unfold parseTagPart isCharBoundary
  have : s[4]? = none := by simp; omega
  have h4 : (4 == s.length) = false := by simp; omega
  simp [this, h4]

/-- `parse_tag_part` never panics (the `expect` is unreachable, `split_at` is guarded) -/
theorem parseTagPart_ne_panic (s : Bytes) : parseTagPart s ≠ .panic := by
  match s with
  | [] | [_] | [_, _] | [_, _, _] => rw [parseTagPart_short (by simp)]; simp
  | a :: b :: c :: d :: rest =>
    rw [parseTagPart_cons4]
    split
    · split <;> simp
    · simp

/-! ### the tag parser by the shape of the text -/

theorem cont_of_ge {b : Nat} (h : b < 128) : isContinuation b = false := by
  unfold isContinuation; simp; omega

theorem specHex4_first {a b c d n : Nat} (h : specHex4 a b c d = some n) : isContinuation a = false := by
  unfold specHex4 at h
  cases ha : hexVal a with
  | none => simp [ha] at h
  | some v => exact not_cont_of_hexVal ha

theorem specHex4_none_of_cont {a b c d : Nat} (h : isContinuation a = true) : specHex4 a b c d = none := by
  cases hs : specHex4 a b c d with
  | none => rfl
  | some n => rw [specHex4_first hs] at h; cases h

theorem parseTag11 (p a b c d q e f g h r : Nat) (t : Tag) :
    parseTag [p, a, b, c, d, q, e, f, g, h, r] = .ok t ↔
      specTagOfText [p, a, b, c, d, q, e, f, g, h, r] = some t := by
  have hlen : [p, a, b, c, d, q, e, f, g, h, r].length = 11 := rfl
  unfold parseTag specTagOfText
  simp only [hlen, if_true, List.head?_cons]
  by_cases hp : p = 0x28
  · subst hp
    simp only [ne_eq, not_true_eq_false, if_false, sliceFrom, isCharBoundary, Nat.one_ne_zero,
      List.getElem?_cons_succ, List.getElem?_cons_zero, List.drop_succ_cons, List.drop_zero]
    by_cases ca : isContinuation a = true
    · simp [ca, Outcome.bind, specPair, specHex4_none_of_cont ca]
    · simp only [ca, Bool.not_false, if_true, Outcome.bind, parseTagPart_cons4, restOk]
      by_cases hq : q = 0x2C
      · subst hq
        simp only [cont_of_ge (by omega : 0x2C < 128), Bool.not_false, if_true]
        cases hab : specHex4 a b c d with
        | none => simp [specPair]
        | some G =>
          simp only [List.head?_cons, not_true_eq_false, if_false,
            List.getElem?_cons_succ, List.getElem?_cons_zero, List.drop_succ_cons, List.drop_zero]
          by_cases ce : isContinuation e = true
          · simp [ce, specPair, specHex4_none_of_cont ce]
          · simp only [ce, Bool.not_false, if_true, parseTagPart_cons4, restOk]
            by_cases hr : r = 0x29
            · subst hr
              simp only [cont_of_ge (by omega : 0x29 < 128), Bool.not_false, if_true]
              cases hef : specHex4 e f g h with
              | none => simp [specPair]
              | some E => simp [specPair]
            · by_cases cr : isContinuation r = true
              · simp [cr, hr]
              · simp only [cr, Bool.not_false, if_true]
                cases hef : specHex4 e f g h with
                | none => simp [hr]
                | some E => simp [hr]
      · by_cases cq : isContinuation q = true
        · simp [cq, hq]
        · simp only [cq, Bool.not_false, if_true]
          cases hab : specHex4 a b c d with
          | none => simp [hq]
          | some G => simp [hq]
  · simp [hp]

theorem parseTag9 (a b c d q e f g h : Nat) (t : Tag) :
    parseTag [a, b, c, d, q, e, f, g, h] = .ok t ↔
      specTagOfText [a, b, c, d, q, e, f, g, h] = some t := by
  have hlen : [a, b, c, d, q, e, f, g, h].length = 9 := rfl
  unfold parseTag specTagOfText
  simp only [hlen, if_true, (by decide : ¬ (9 = 11)), if_false, Outcome.bind, parseTagPart_cons4, restOk]
  by_cases hq : q = 0x2C
  · subst hq
    simp only [cont_of_ge (by omega : 0x2C < 128), Bool.not_false, if_true]
    cases hab : specHex4 a b c d with
    | none => simp [specPair]
    | some G =>
      simp only [List.head?_cons, ne_eq, not_true_eq_false, if_false, sliceFrom, isCharBoundary,
        Nat.one_ne_zero, List.getElem?_cons_succ, List.getElem?_cons_zero, List.drop_succ_cons,
        List.drop_zero]
      by_cases ce : isContinuation e = true
      · simp [ce, specPair, specHex4_none_of_cont ce]
      · simp only [ce, Bool.not_false, if_true, parseTagPart_cons4, restOk]
        cases hef : specHex4 e f g h with
        | none => simp [specPair]
        | some E => simp [specPair]
  · by_cases cq : isContinuation q = true
    · simp [cq, hq]
    · simp only [cq, Bool.not_false, if_true]
      cases hab : specHex4 a b c d with
      | none => simp [hq]
      | some G => simp [hq]

theorem parseTag8 (a b c d e f g h : Nat) (t : Tag) :
    parseTag [a, b, c, d, e, f, g, h] = .ok t ↔ specTagOfText [a, b, c, d, e, f, g, h] = some t := by
  have hlen : [a, b, c, d, e, f, g, h].length = 8 := rfl
  unfold parseTag specTagOfText
  simp only [hlen, if_true, (by decide : ¬ (8 = 11)), (by decide : ¬ (8 = 9)), if_false, Outcome.bind,
    parseTagPart_cons4, restOk]
  by_cases ce : isContinuation e = true
  · simp [ce, specPair, specHex4_none_of_cont ce]
  · simp only [ce, Bool.not_false, if_true]
    cases hab : specHex4 a b c d with
    | none => simp [specPair]
    | some G =>
      simp only [parseTagPart_cons4, restOk, if_true]
      cases hef : specHex4 e f g h with
      | none => simp [specPair]
      | some E => simp [specPair]

theorem exists_cons_of_length {s : Bytes} {n : Nat} (h : s.length = n + 1) :
    ∃ x xs, s = x :: xs ∧ xs.length = n := by
  cases s with
  | nil => simp at h
  | cons x xs => exact ⟨x, xs, rfl, by simpa using h⟩

/-- **Parsing accepts exactly the three layouts with hexadecimal digits of either case**, for
arbitrary byte strings: `s.parse::<Tag>() = Ok(t)` iff `s` denotes `t`. -/
theorem parseTag_ok_iff (s : Bytes) (t : Tag) : parseTag s = .ok t ↔ specTagOfText s = some t := by
  by_cases h11 : s.length = 11
  · obtain ⟨x0, s, rfl, k0⟩ := exists_cons_of_length h11
    obtain ⟨x1, s, rfl, k1⟩ := exists_cons_of_length k0
    obtain ⟨x2, s, rfl, k2⟩ := exists_cons_of_length k1
    obtain ⟨x3, s, rfl, k3⟩ := exists_cons_of_length k2
    obtain ⟨x4, s, rfl, k4⟩ := exists_cons_of_length k3
    obtain ⟨x5, s, rfl, k5⟩ := exists_cons_of_length k4
    obtain ⟨x6, s, rfl, k6⟩ := exists_cons_of_length k5
    obtain ⟨x7, s, rfl, k7⟩ := exists_cons_of_length k6
    obtain ⟨x8, s, rfl, k8⟩ := exists_cons_of_length k7
    obtain ⟨x9, s, rfl, k9⟩ := exists_cons_of_length k8
    obtain ⟨x10, s, rfl, k10⟩ := exists_cons_of_length k9
    cases s with
    | nil => exact parseTag11 ..
    | cons _ _ => simp at k10
  · by_cases h9 : s.length = 9
    · obtain ⟨x0, s, rfl, k0⟩ := exists_cons_of_length h9
      obtain ⟨x1, s, rfl, k1⟩ := exists_cons_of_length k0
      obtain ⟨x2, s, rfl, k2⟩ := exists_cons_of_length k1
      obtain ⟨x3, s, rfl, k3⟩ := exists_cons_of_length k2
      obtain ⟨x4, s, rfl, k4⟩ := exists_cons_of_length k3
      obtain ⟨x5, s, rfl, k5⟩ := exists_cons_of_length k4
      obtain ⟨x6, s, rfl, k6⟩ := exists_cons_of_length k5
      obtain ⟨x7, s, rfl, k7⟩ := exists_cons_of_length k6
      obtain ⟨x8, s, rfl, k8⟩ := exists_cons_of_length k7
      cases s with
      | nil => exact parseTag9 ..
      | cons _ _ => simp at k8
    · by_cases h8 : s.length = 8
      · obtain ⟨x0, s, rfl, k0⟩ := exists_cons_of_length h8
        obtain ⟨x1, s, rfl, k1⟩ := exists_cons_of_length k0
        obtain ⟨x2, s, rfl, k2⟩ := exists_cons_of_length k1
        obtain ⟨x3, s, rfl, k3⟩ := exists_cons_of_length k2
        obtain ⟨x4, s, rfl, k4⟩ := exists_cons_of_length k3
        obtain ⟨x5, s, rfl, k5⟩ := exists_cons_of_length k4
        obtain ⟨x6, s, rfl, k6⟩ := exists_cons_of_length k5
        obtain ⟨x7, s, rfl, k7⟩ := exists_cons_of_length k6
        cases s with
        | nil => exact parseTag8 ..
        | cons _ _ => simp at k7
      · have hp : parseTag s = .err .length := by simp [parseTag, h11, h9, h8]
        have hs : specTagOfText s = none := by
          unfold specTagOfText
          split
          · simp at h11
          · simp at h9
          · simp at h8
          · rfl
        rw [hp, hs]; simp

/-- a text that denotes no tag is never accepted -/
theorem parseTag_not_ok {s : Bytes} (h : specTagOfText s = none) (t : Tag) : parseTag s ≠ .ok t := by
  intro hp
  rw [(parseTag_ok_iff s t).mp hp] at h
  cases h

/-! ### panic-freedom -/

/-- in valid UTF-8 a byte that follows an ASCII byte starts a new character -/
def okAfterAscii : Bytes → Bool
  | a :: b :: rest => (decide (a ≥ 128) || !isContinuation b) && okAfterAscii (b :: rest)
  | _ => true

theorem okAfterAscii_tail {a : Nat} {s : Bytes} (h : okAfterAscii (a :: s) = true) : okAfterAscii s = true := by
  cases s with
  | nil => rfl
  | cons b r => simp [okAfterAscii] at h; exact h.2

theorem okAfterAscii_head {a b : Nat} {s : Bytes} (h : okAfterAscii (a :: b :: s) = true) (ha : a < 128) :
    isContinuation b = false := by
  simp [okAfterAscii] at h
  rcases h.1 with h1 | h1
  · omega
  · exact h1

theorem parseTag11_np (p a b c d q e f g h r : Nat) (ok : okAfterAscii [p, a, b, c, d, q, e, f, g, h, r] = true) :
    parseTag [p, a, b, c, d, q, e, f, g, h, r] ≠ .panic := by
  have hlen : [p, a, b, c, d, q, e, f, g, h, r].length = 11 := rfl
  unfold parseTag
  simp only [hlen, if_true, List.head?_cons]
  by_cases hp : p = 0x28
  · subst hp
    have ca := okAfterAscii_head ok (by omega)
    simp only [ne_eq, not_true_eq_false, if_false, sliceFrom, isCharBoundary, Nat.one_ne_zero,
      List.getElem?_cons_succ, List.getElem?_cons_zero, List.drop_succ_cons, List.drop_zero,
      ca, Bool.not_false, if_true, Outcome.bind, parseTagPart_cons4, restOk]
    by_cases hq : q = 0x2C
    · subst hq
      have ce := okAfterAscii_head (okAfterAscii_tail (okAfterAscii_tail (okAfterAscii_tail
        (okAfterAscii_tail (okAfterAscii_tail ok))))) (by omega)
      simp only [cont_of_ge (by omega : 0x2C < 128), Bool.not_false, if_true]
      cases hab : specHex4 a b c d with
      | none => simp
      | some G =>
        simp only [List.head?_cons, not_true_eq_false, if_false,
          List.getElem?_cons_succ, List.getElem?_cons_zero, List.drop_succ_cons, List.drop_zero,
          ce, Bool.not_false, if_true, parseTagPart_cons4, restOk]
        by_cases cr : isContinuation r = true
        · simp [cr]
        · simp only [cr, Bool.not_false, if_true]
          cases hef : specHex4 e f g h with
          | none => simp
          | some E => by_cases hr : r = 0x29 <;> simp [hr]
    · by_cases cq : isContinuation q = true
      · simp [cq]
      · simp only [cq, Bool.not_false, if_true]
        cases hab : specHex4 a b c d with
        | none => simp
        | some G => simp [hq]
  · simp [hp]

theorem parseTag9_np (a b c d q e f g h : Nat) (ok : okAfterAscii [a, b, c, d, q, e, f, g, h] = true) :
    parseTag [a, b, c, d, q, e, f, g, h] ≠ .panic := by
  have hlen : [a, b, c, d, q, e, f, g, h].length = 9 := rfl
  unfold parseTag
  simp only [hlen, if_true, (by decide : ¬ (9 = 11)), if_false, Outcome.bind, parseTagPart_cons4, restOk]
  by_cases hq : q = 0x2C
  · subst hq
    have ce := okAfterAscii_head (okAfterAscii_tail (okAfterAscii_tail (okAfterAscii_tail
      (okAfterAscii_tail ok)))) (by omega)
    simp only [cont_of_ge (by omega : 0x2C < 128), Bool.not_false, if_true]
    cases hab : specHex4 a b c d with
    | none => simp
    | some G =>
      simp only [List.head?_cons, ne_eq, not_true_eq_false, if_false, sliceFrom, isCharBoundary,
        Nat.one_ne_zero, List.getElem?_cons_succ, List.getElem?_cons_zero, List.drop_succ_cons,
        List.drop_zero, ce, Bool.not_false, if_true, parseTagPart_cons4, restOk]
      cases hef : specHex4 e f g h with
      | none => simp
      | some E => simp
  · by_cases cq : isContinuation q = true
    · simp [cq]
    · simp only [cq, Bool.not_false, if_true]
      cases hab : specHex4 a b c d with
      | none => simp
      | some G => simp [hq]

theorem parseTag8_np (a b c d e f g h : Nat) : parseTag [a, b, c, d, e, f, g, h] ≠ .panic := by
  have hlen : [a, b, c, d, e, f, g, h].length = 8 := rfl
  unfold parseTag
  simp only [hlen, if_true, (by decide : ¬ (8 = 11)), (by decide : ¬ (8 = 9)), if_false, Outcome.bind,
    parseTagPart_cons4, restOk]
  by_cases ce : isContinuation e = true
  · simp [ce]
  · simp only [ce, Bool.not_false, if_true]
    cases hab : specHex4 a b c d with
    | none => simp
    | some G =>
      simp only [parseTagPart_cons4, restOk, if_true]
      cases hef : specHex4 e f g h with
      | none => simp
      | some E => simp

/-- **No panic**: on a text in which no continuation byte follows an ASCII byte — in particular on
every valid UTF-8 string (`okAfterAscii_utf8`) — the tag parser returns `Ok` or `Err`. -/
theorem parseTag_ne_panic {s : Bytes} (ok : okAfterAscii s = true) : parseTag s ≠ .panic := by
  by_cases h11 : s.length = 11
  · obtain ⟨x0, s, rfl, k0⟩ := exists_cons_of_length h11
    obtain ⟨x1, s, rfl, k1⟩ := exists_cons_of_length k0
    obtain ⟨x2, s, rfl, k2⟩ := exists_cons_of_length k1
    obtain ⟨x3, s, rfl, k3⟩ := exists_cons_of_length k2
    obtain ⟨x4, s, rfl, k4⟩ := exists_cons_of_length k3
    obtain ⟨x5, s, rfl, k5⟩ := exists_cons_of_length k4
    obtain ⟨x6, s, rfl, k6⟩ := exists_cons_of_length k5
    obtain ⟨x7, s, rfl, k7⟩ := exists_cons_of_length k6
    obtain ⟨x8, s, rfl, k8⟩ := exists_cons_of_length k7
    obtain ⟨x9, s, rfl, k9⟩ := exists_cons_of_length k8
    obtain ⟨x10, s, rfl, k10⟩ := exists_cons_of_length k9
    cases s with
    | nil => exact parseTag11_np _ _ _ _ _ _ _ _ _ _ _ ok
    | cons _ _ => simp at k10
  · by_cases h9 : s.length = 9
    · obtain ⟨x0, s, rfl, k0⟩ := exists_cons_of_length h9
      obtain ⟨x1, s, rfl, k1⟩ := exists_cons_of_length k0
      obtain ⟨x2, s, rfl, k2⟩ := exists_cons_of_length k1
      obtain ⟨x3, s, rfl, k3⟩ := exists_cons_of_length k2
      obtain ⟨x4, s, rfl, k4⟩ := exists_cons_of_length k3
      obtain ⟨x5, s, rfl, k5⟩ := exists_cons_of_length k4
      obtain ⟨x6, s, rfl, k6⟩ := exists_cons_of_length k5
      obtain ⟨x7, s, rfl, k7⟩ := exists_cons_of_length k6
      obtain ⟨x8, s, rfl, k8⟩ := exists_cons_of_length k7
      cases s with
      | nil => exact parseTag9_np _ _ _ _ _ _ _ _ _ ok
      | cons _ _ => simp at k8
    · by_cases h8 : s.length = 8
      · obtain ⟨x0, s, rfl, k0⟩ := exists_cons_of_length h8
        obtain ⟨x1, s, rfl, k1⟩ := exists_cons_of_length k0
        obtain ⟨x2, s, rfl, k2⟩ := exists_cons_of_length k1
        obtain ⟨x3, s, rfl, k3⟩ := exists_cons_of_length k2
        obtain ⟨x4, s, rfl, k4⟩ := exists_cons_of_length k3
        obtain ⟨x5, s, rfl, k5⟩ := exists_cons_of_length k4
        obtain ⟨x6, s, rfl, k6⟩ := exists_cons_of_length k5
        obtain ⟨x7, s, rfl, k7⟩ := exists_cons_of_length k6
        cases s with
        | nil => exact parseTag8_np _ _ _ _ _ _ _ _
        | cons _ _ => simp at k7
      · simp [parseTag, h11, h9, h8]

/-! ### UTF-8 -/

theorem okAfterAscii_append_high {l E : Bytes} (hl : ∀ b ∈ l, b ≥ 128) (hE : okAfterAscii E = true) :
    okAfterAscii (l ++ E) = true := by
  induction l with
  | nil => simpa using hE
  | cons a r ih =>
    have ha : a ≥ 128 := hl a (by simp)
    have ih' := ih (fun b hb => hl b (by simp [hb]))
    cases hr : r ++ E with
    | nil => simp [hr, okAfterAscii]
    | cons b t =>
      rw [hr] at ih'
      simp only [List.cons_append, hr, okAfterAscii, Bool.and_eq_true, Bool.or_eq_true,
        decide_eq_true_eq]
      exact ⟨Or.inl ha, ih'⟩

theorem utf8EncodeChar_cases (c : Char) :
    (∃ n, n < 128 ∧ utf8EncodeChar c = [n]) ∨
      ((∀ b ∈ utf8EncodeChar c, b ≥ 128) ∧ ∃ x r, utf8EncodeChar c = x :: r ∧ x ≥ 192) := by
  unfold utf8EncodeChar
  simp only []
  split
  · exact Or.inl ⟨_, by assumption, rfl⟩
  · right
    split
    · refine ⟨?_, _, _, rfl, by omega⟩
      intro b hb; simp at hb; omega
    · split
      · refine ⟨?_, _, _, rfl, by omega⟩
        intro b hb; simp at hb; omega
      · refine ⟨?_, _, _, rfl, by omega⟩
        intro b hb; simp at hb; omega

/-- the UTF-8 encoding of any character sequence satisfies `okAfterAscii`, and does not start with
a continuation byte -/
theorem okAfterAscii_utf8_aux (cs : List Char) :
    okAfterAscii (utf8Encode cs) = true ∧ restOk (utf8Encode cs) = true := by
  induction cs with
  | nil => exact ⟨rfl, rfl⟩
  | cons c cs ih =>
    have e : utf8Encode (c :: cs) = utf8EncodeChar c ++ utf8Encode cs := by
      simp [utf8Encode]
    rw [e]
    rcases utf8EncodeChar_cases c with ⟨n, hn, hc⟩ | ⟨hall, x, r, hc, hx⟩
    · rw [hc]
      refine ⟨?_, ?_⟩
      · cases hE : utf8Encode cs with
        | nil => rfl
        | cons b t =>
          have := ih.2; rw [hE] at this
          have h1 := ih.1; rw [hE] at h1
          simp only [List.cons_append, List.nil_append, okAfterAscii, Bool.and_eq_true, Bool.or_eq_true,
            decide_eq_true_eq]
          exact ⟨Or.inr (by simpa [restOk] using this), h1⟩
      · simp [restOk, isContinuation]; omega
    · refine ⟨okAfterAscii_append_high hall ih.1, ?_⟩
      rw [hc]; simp [restOk, isContinuation]; omega

theorem okAfterAscii_utf8 (cs : List Char) : okAfterAscii (utf8Encode cs) = true :=
  (okAfterAscii_utf8_aux cs).1

/-! ### printed forms denote their tag -/

theorem specTagOfText_tagForm (f : Form) (u : Bool) (t : Tag) (hg : t.1 < 65536) (he : t.2 < 65536) :
    specTagOfText (tagForm f u t) = some t := by
  cases f <;>
    simp [tagForm, hex4, specTagOfText, specHex4_hex4 u _ hg, specHex4_hex4 u _ he, specPair]

/-! ### splitting on `.` -/

theorem splitOn_ne_nil (c : Nat) (s : Bytes) : splitOn c s ≠ [] := by
  induction s with
  | nil => simp [splitOn]
  | cons b bs ih =>
    unfold splitOn
    split
    · simp
    · split <;> simp

theorem splitOn_noSep {c : Nat} {p : Bytes} (h : c ∉ p) : splitOn c p = [p] := by
  induction p with
  | nil => rfl
  | cons b bs ih =>
    have hb : b ≠ c := fun e => h (by simp [e])
    have hbs : c ∉ bs := fun m => h (by simp [m])
    simp [splitOn, hb, ih hbs]

theorem splitOn_append_sep {c : Nat} {p : Bytes} (h : c ∉ p) (rest : Bytes) :
    splitOn c (p ++ c :: rest) = p :: splitOn c rest := by
  induction p with
  | nil => simp [splitOn]
  | cons b bs ih =>
    have hb : b ≠ c := fun e => h (by simp [e])
    have hbs : c ∉ bs := fun m => h (by simp [m])
    simp [splitOn, hb, ih hbs]

theorem splitOn_joinDots {ps : List Bytes} (hne : ps ≠ []) (h : ∀ p ∈ ps, 0x2E ∉ p) :
    splitOn 0x2E (joinDots ps) = ps := by
  induction ps with
  | nil => exact absurd rfl hne
  | cons p rest ih =>
    cases rest with
    | nil => simp [joinDots, splitOn_noSep (h p (by simp))]
    | cons q rest' =>
      simp only [joinDots]
      rw [splitOn_append_sep (h p (by simp)), ih (by simp) (fun x hx => h x (by simp [hx]))]

/-! ### decimal item indices -/

theorem toDec_digits (n : Nat) : ∀ b ∈ Digits.toDec n, Digits.isDigit b = true := by
  induction n using Nat.strongRecOn with
  | _ n ih =>
    by_cases h : n < 10
    · rw [Digits.toDec_lt h]; intro b hb; simp at hb; subst hb; simp [Digits.isDigit]; omega
    · rw [Digits.toDec_ge (by omega)]
      intro b hb
      simp only [List.mem_append, List.mem_singleton] at hb
      rcases hb with hb | hb
      · exact ih (n / 10) (by omega) b hb
      · subst hb; simp [Digits.isDigit]; omega

theorem toDec_ne_nil (n : Nat) : Digits.toDec n ≠ [] := by
  by_cases h : n < 10
  · rw [Digits.toDec_lt h]; simp
  · rw [Digits.toDec_ge (by omega)]; simp

theorem foldl_toDec (n : Nat) :
    (Digits.toDec n).foldl (fun acc b => acc * 10 + (b - 48)) 0 = n := by
  induction n using Nat.strongRecOn with
  | _ n ih =>
    by_cases h : n < 10
    · rw [Digits.toDec_lt h]; simp
    · rw [Digits.toDec_ge (by omega), List.foldl_append, ih (n / 10) (by omega)]
      simp; omega

/-- `i.to_string().parse::<u32>() = Ok(i)` -/
theorem parseU32_toDec {n : Nat} (h : n < 4294967296) : parseU32 (Digits.toDec n) = some n := by
  unfold parseU32
  have hd := toDec_digits n
  have hne := toDec_ne_nil n
  have hplus : stripPlus (Digits.toDec n) = Digits.toDec n := by
    cases hh : Digits.toDec n with
    | nil => rfl
    | cons b r =>
      have : Digits.isDigit b = true := hd b (by simp [hh])
      have hb : b ≠ 0x2B := by intro e; subst e; simp [Digits.isDigit] at this
      unfold stripPlus
      split
      · rename_i heq; simp at heq; exact absurd heq.1 hb
      · rfl
  rw [hplus]
  have hany : (Digits.toDec n).any (fun b => !Digits.isDigit b) = false := by
    rw [List.any_eq_false]; intro b hb; simp [hd b hb]
  have hemp : (Digits.toDec n).isEmpty = false := by
    cases hh : Digits.toDec n with
    | nil => exact absurd hh hne
    | cons _ _ => rfl
  simp [hany, hemp, foldl_toDec, h]


/-! ### printed tags and selector steps -/

theorem hexDigit_range (u : Bool) (n : Nat) (h : n < 16) :
    (48 ≤ hexDigit u n ∧ hexDigit u n ≤ 57) ∨ (65 ≤ hexDigit u n ∧ hexDigit u n ≤ 70) ∨
      (97 ≤ hexDigit u n ∧ hexDigit u n ≤ 102) := by
  unfold hexDigit
  cases u <;> simp <;> split <;> omega

theorem mem_hex4 {u : Bool} {n b : Nat} (h : b ∈ hex4 u n) :
    (48 ≤ b ∧ b ≤ 57) ∨ (65 ≤ b ∧ b ≤ 70) ∨ (97 ≤ b ∧ b ≤ 102) := by
  simp only [hex4, List.mem_cons, List.not_mem_nil, or_false] at h
  rcases h with h | h | h | h <;> subst h <;> exact hexDigit_range u _ (Nat.mod_lt _ (by omega))

/-- the bytes of a printed tag: parentheses, comma, hex digits -/
theorem mem_printTag {t : Tag} {b : Nat} (h : b ∈ printTag t) :
    b = 0x28 ∨ b = 0x2C ∨ b = 0x29 ∨ (48 ≤ b ∧ b ≤ 57) ∨ (65 ≤ b ∧ b ≤ 70) ∨ (97 ≤ b ∧ b ≤ 102) := by
  simp only [printTag, tagForm, List.mem_cons, List.mem_append, List.not_mem_nil, or_false] at h
  rcases h with h | h | h | h | h
  · omega
  · have := mem_hex4 h; omega
  · omega
  · have := mem_hex4 h; omega
  · omega

theorem printTag_length (t : Tag) : (printTag t).length = 11 := by
  simp [printTag, tagForm, hex4]

theorem printTag_getLast (t : Tag) : (printTag t).getLast? = some 0x29 := by
  simp [printTag, tagForm, hex4]

/-! ### keys inside a selector text -/

/-- a text usable as a selector key for tag `t`: `parse_tag` resolves it to `t`, and it contains no
`.`, no `[`, and does not end in `]` -/
structure KeyText (byName : Bytes → Option Tag) (k : Bytes) (t : Tag) : Prop where
  resolves : dictParseTag byName k = .tag t
  noDot : 0x2E ∉ k
  noBracket : 0x5B ∉ k
  noClose : k.getLast? ≠ some 0x5D

theorem findByte_append {c : Nat} {p : Bytes} (h : c ∉ p) (r : Bytes) :
    findByte c (p ++ c :: r) = some p.length := by
  induction p with
  | nil => simp [findByte]
  | cons b bs ih =>
    have hb : b ≠ c := fun e => h (by simp [e])
    have hbs : c ∉ bs := fun m => h (by simp [m])
    simp [findByte, hb, ih hbs]

theorem getLast?_append_singleton (l : Bytes) (x : Nat) : (l ++ [x]).getLast? = some x := by
  simp

/-- `«key»[«item»]` -/
def nestedText (k : Bytes) (i : Nat) : Bytes := k ++ 0x5B :: (Digits.toDec i ++ [0x5D])

theorem parsePart_nested {byName : Bytes → Option Tag} {k : Bytes} {t : Tag} (hk : KeyText byName k t)
    {i : Nat} (hi : i < 4294967296) : parsePart byName (nestedText k i) = .ok (.nested t i) := by
  unfold parsePart nestedText
  have hlast : (k ++ 0x5B :: (Digits.toDec i ++ [0x5D])).getLast? = some 0x5D := by
    rw [show k ++ 0x5B :: (Digits.toDec i ++ [0x5D]) = (k ++ 0x5B :: Digits.toDec i) ++ [0x5D] by simp]
    exact getLast?_append_singleton _ _
  rw [if_pos hlast, findByte_append hk.noBracket]
  simp only []
  have htake : (k ++ 0x5B :: (Digits.toDec i ++ [0x5D])).take k.length = k := by simp
  have hitem : ((k ++ 0x5B :: (Digits.toDec i ++ [0x5D])).drop (k.length + 1)).take
      ((k ++ 0x5B :: (Digits.toDec i ++ [0x5D])).length - 1 - (k.length + 1)) = Digits.toDec i := by
    have : (k ++ 0x5B :: (Digits.toDec i ++ [0x5D])).drop (k.length + 1) = Digits.toDec i ++ [0x5D] := by
      rw [show k ++ 0x5B :: (Digits.toDec i ++ [0x5D]) = (k ++ [0x5B]) ++ (Digits.toDec i ++ [0x5D]) by simp]
      rw [List.drop_append_of_le_length (by simp)]
      simp
    rw [this]
    have hl : (k ++ 0x5B :: (Digits.toDec i ++ [0x5D])).length - 1 - (k.length + 1) = (Digits.toDec i).length := by
      simp; omega
    rw [hl]; simp
  rw [htake, hitem, hk.resolves, parseU32_toDec hi]

theorem parsePart_key {byName : Bytes → Option Tag} {k : Bytes} {t : Tag} (hk : KeyText byName k t) :
    parsePart byName k = .ok (.tag t) := by
  unfold parsePart
  rw [if_neg hk.noClose, hk.resolves]

theorem nestedText_noDot {k : Bytes} (h : 0x2E ∉ k) (i : Nat) : 0x2E ∉ nestedText k i := by
  unfold nestedText
  intro hm
  simp only [List.mem_append, List.mem_cons, List.not_mem_nil, or_false] at hm
  rcases hm with hm | hm | hm | hm
  · exact h hm
  · omega
  · have := toDec_digits i _ hm; simp [Digits.isDigit] at this
  · omega


/-- one step of a selector text: a key, the tag it resolves to, the item index, and whether the
index is written (`key[item]`) or left out (`key`, item 0) -/
structure KeyStep where
  k : Bytes
  t : Tag
  item : Nat
  explicit : Bool

def KeyStep.text (s : KeyStep) : Bytes := if s.explicit then nestedText s.k s.item else s.k
def KeyStep.step (s : KeyStep) : Step := if s.explicit then .nested s.t s.item else .tag s.t

def KeyStep.Ok (byName : Bytes → Option Tag) (s : KeyStep) : Prop :=
  KeyText byName s.k s.t ∧ s.item < 4294967296 ∧ (s.explicit = false → s.item = 0)

theorem parsePart_keyStep {byName : Bytes → Option Tag} {s : KeyStep} (h : s.Ok byName) :
    parsePart byName s.text = .ok s.step := by
  unfold KeyStep.text KeyStep.step
  cases he : s.explicit
  · simp [parsePart_key h.1]
  · simp [parsePart_nested h.1 h.2.1]

theorem keyStep_noDot {byName : Bytes → Option Tag} {s : KeyStep} (h : s.Ok byName) : 0x2E ∉ s.text := by
  unfold KeyStep.text
  cases he : s.explicit
  · simpa using h.1.noDot
  · simpa using nestedText_noDot h.1.noDot s.item

theorem parseParts_keys {byName : Bytes → Option Tag} (path : List KeyStep) (leafK : Bytes) (leafT : Tag)
    (hp : ∀ s ∈ path, s.Ok byName) (hl : KeyText byName leafK leafT) :
    parseParts byName (path.map KeyStep.text ++ [leafK]) = .ok (path.map KeyStep.step ++ [.tag leafT]) := by
  induction path with
  | nil => simp [parseParts, parsePart_key hl]
  | cons s rest ih =>
    have := ih (fun x hx => hp x (by simp [hx]))
    simp only [List.map_cons, List.cons_append, parseParts, parsePart_keyStep (hp s (by simp)), this]

theorem Selector.new_keys (path : List KeyStep) (leafT : Tag)
    (hp : ∀ s ∈ path, s.explicit = false → s.item = 0) :
    Selector.new (path.map KeyStep.step ++ [.tag leafT]) = some ⟨path.map (fun s => (s.t, s.item)), leafT⟩ := by
  induction path with
  | nil => rfl
  | cons s rest ih =>
    have ih' := ih (fun x hx => hp x (by simp [hx]))
    have hne : rest.map KeyStep.step ++ [Step.tag leafT] ≠ [] := by simp
    cases hr : rest.map KeyStep.step ++ [Step.tag leafT] with
    | nil => exact absurd hr hne
    | cons x xs =>
      rw [hr] at ih'
      simp only [List.map_cons, List.cons_append, hr]
      unfold KeyStep.step
      cases he : s.explicit
      · have := hp s (by simp) he
        simp [Selector.new, ih', this]
      · simp [Selector.new, ih']

/-- **Selector texts**: keys that resolve (printed tags, other tag forms, dictionary keywords), with
written or omitted item indices, joined by `.`, parse to the selector of the resolved tags. -/
theorem parseSelector_keys {byName : Bytes → Option Tag} (path : List KeyStep) (leafK : Bytes) (leafT : Tag)
    (hp : ∀ s ∈ path, s.Ok byName) (hl : KeyText byName leafK leafT) :
    parseSelector byName (joinDots (path.map KeyStep.text ++ [leafK])) =
      .ok ⟨path.map (fun s => (s.t, s.item)), leafT⟩ := by
  unfold parseSelector
  rw [splitOn_joinDots (by simp)]
  · rw [parseParts_keys path leafK leafT hp hl]
    simp only []
    rw [Selector.new_keys path leafT (fun s hs => (hp s hs).2.2)]
  · intro p hpm
    simp only [List.mem_append, List.mem_map, List.mem_singleton] at hpm
    rcases hpm with ⟨s, hs, rfl⟩ | rfl
    · exact keyStep_noDot (hp s hs)
    · exact hl.noDot


/-! ### keywords carried as numbers -/

def isAlnum (b : Nat) : Bool :=
  (Nat.ble 48 b && Nat.ble b 57) || (Nat.ble 65 b && Nat.ble b 90) || (Nat.ble 97 b && Nat.ble b 122)

/-- bit `b` is set iff byte `b` is alphanumeric -/
def alnumMask : Nat := 0x7fffffe07fffffe03ff000000000000

/-- `isAlnum` by table lookup (three kernel-accelerated operations) -/
def alnumBit (b : Nat) : Bool := Nat.beq (Nat.land (Nat.shiftRight alnumMask b) 1) 1

theorem alnumBit_eq : ∀ b, b < 256 → alnumBit b = isAlnum b := by decide +kernel

/-- all base-256 digits of `n` are alphanumeric (arithmetic only: cheap for the kernel) -/
def kwScan : Nat → Nat → Bool
  | 0, n => Nat.beq n 0
  | f + 1, n => bif Nat.beq n 0 then true else alnumBit (n % 256) && kwScan f (n / 256)

theorem bytesOfAux_acc (f n : Nat) (acc : Bytes) : bytesOfAux f n acc = bytesOfAux f n [] ++ acc := by
  induction f generalizing n acc with
  | zero => simp [bytesOfAux]
  | succ f ih =>
    unfold bytesOfAux
    by_cases h : n = 0
    · simp [h]
    · simp only [h, if_false]
      rw [ih (n / 256) (n % 256 :: acc), ih (n / 256) [n % 256]]
      simp

theorem natOfBytes_append (l : Bytes) (x : Nat) : natOfBytes (l ++ [x]) = natOfBytes l * 256 + x := by
  simp [natOfBytes, List.foldl_append]

theorem natOfBytes_bytesOfAux (f n : Nat) (h : n < 256 ^ f) : natOfBytes (bytesOfAux f n []) = n := by
  induction f generalizing n with
  | zero => simp at h; subst h; rfl
  | succ f ih =>
    unfold bytesOfAux
    by_cases h0 : n = 0
    · simp [h0, natOfBytes]
    · simp only [h0, if_false]
      rw [bytesOfAux_acc, natOfBytes_append, ih (n / 256) (by rw [Nat.pow_succ] at h; omega)]
      omega

theorem kwScan_all (f n : Nat) (h : kwScan f n = true) : (bytesOfAux f n []).all isAlnum = true := by
  induction f generalizing n with
  | zero => simp [bytesOfAux]
  | succ f ih =>
    unfold kwScan at h
    unfold bytesOfAux
    by_cases h0 : n = 0
    · simp [h0]
    · have hb : Nat.beq n 0 = false := by
        cases hh : Nat.beq n 0
        · rfl
        · exact absurd (Nat.eq_of_beq_eq_true hh) h0
      rw [hb, cond_false, Bool.and_eq_true] at h
      simp only [h0, if_false]
      rw [bytesOfAux_acc]
      have hb' := alnumBit_eq (n % 256) (Nat.mod_lt _ (by omega))
      rw [hb'] at h
      simp [ih (n / 256) h.2, h.1]

theorem length_bytesOfAux_le (f n k : Nat) (h : n < 256 ^ k) : (bytesOfAux f n []).length ≤ k := by
  induction f generalizing n k with
  | zero => simp [bytesOfAux]
  | succ f ih =>
    unfold bytesOfAux
    by_cases h0 : n = 0
    · simp [h0]
    · simp only [h0, if_false]
      rw [bytesOfAux_acc]
      cases k with
      | zero => simp at h; omega
      | succ k =>
        have := ih (n / 256) k (by rw [Nat.pow_succ] at h; omega)
        simp; omega

theorem length_bytesOfAux_gt (f n k : Nat) (hf : n < 256 ^ f) (h : 256 ^ k ≤ n) :
    k < (bytesOfAux f n []).length := by
  induction f generalizing n k with
  | zero => simp at hf; subst hf; have := Nat.pow_pos (n := k) (by omega : 0 < 256); omega
  | succ f ih =>
    unfold bytesOfAux
    have hpos := Nat.pow_pos (n := k) (by omega : 0 < 256)
    have h0 : n ≠ 0 := by omega
    simp only [h0, if_false]
    rw [bytesOfAux_acc]
    cases k with
    | zero => simp
    | succ k =>
      have := ih (n / 256) k (by rw [Nat.pow_succ] at hf; omega) (by rw [Nat.pow_succ] at h; omega)
      simp; omega

theorem parseTag_err_of_length {s : Bytes} (h : s.length ≠ 11 ∧ s.length ≠ 9 ∧ s.length ≠ 8) :
    parseTag s = .err .length := by
  simp [parseTag, h.1, h.2.1, h.2.2]

def isErr : Outcome Tag → Bool
  | .err _ => true
  | _ => false

/-- what is needed of a keyword (given as a number) for it to work as a selector key: its text is
non-empty and alphanumeric, and is not itself a tag form. The byte string is only built for texts
of 8, 9 or 11 bytes. -/
def keywordOk (a : Nat) : Bool :=
  Nat.blt 0 a && Nat.blt a (256 ^ 64) && kwScan 256 a &&
    (Nat.blt a (256 ^ 7) || (Nat.ble (256 ^ 9) a && Nat.blt a (256 ^ 10)) || Nat.ble (256 ^ 11) a ||
      isErr (parseTag (bytesOf a)))

theorem keywordOk_spec {a : Nat} (h : keywordOk a = true) :
    (bytesOf a).all isAlnum = true ∧ bytesOf a ≠ [] ∧ natOfBytes (bytesOf a) = a ∧
      isErr (parseTag (bytesOf a)) = true := by
  unfold keywordOk at h
  simp only [Bool.and_eq_true, Bool.or_eq_true, Nat.blt_eq, Nat.ble_eq] at h
  obtain ⟨⟨⟨hpos, hlt⟩, hscan⟩, hcase⟩ := h
  have hlt256 : a < 256 ^ 256 := Nat.lt_of_lt_of_le hlt (Nat.pow_le_pow_right (by omega) (by omega))
  have hnat := natOfBytes_bytesOfAux 256 a hlt256
  refine ⟨kwScan_all 256 a hscan, ?_, hnat, ?_⟩
  · intro he
    have : natOfBytes (bytesOf a) = 0 := by rw [he]; rfl
    unfold bytesOf at this
    omega
  · rcases hcase with ((h7 | h10) | h12) | he
    · have := length_bytesOfAux_le 256 a 7 h7
      rw [show bytesOf a = bytesOfAux 256 a [] from rfl, parseTag_err_of_length (by omega)]; rfl
    · have h1 := length_bytesOfAux_le 256 a 10 h10.2
      have h2 := length_bytesOfAux_gt 256 a 9 hlt256 h10.1
      rw [show bytesOf a = bytesOfAux 256 a [] from rfl, parseTag_err_of_length (by omega)]; rfl
    · have h2 := length_bytesOfAux_gt 256 a 11 hlt256 h12
      rw [show bytesOf a = bytesOfAux 256 a [] from rfl, parseTag_err_of_length (by omega)]; rfl
    · exact he

theorem alnum_facts {b : Bytes} (h : b.all isAlnum = true) :
    0x2E ∉ b ∧ 0x5B ∉ b ∧ b.getLast? ≠ some 0x5D ∧ b.head? ≠ some 0 := by
  have hall : ∀ x ∈ b, isAlnum x = true := by simpa using h
  have no : ∀ v, isAlnum v = false → v ∉ b := fun v hv hm => by rw [hall v hm] at hv; cases hv
  refine ⟨no _ (by decide), no _ (by decide), ?_, ?_⟩
  · intro hl
    exact no 0x5D (by decide) (List.mem_of_getLast? hl)
  · intro hh
    exact no 0 (by decide) (List.mem_of_head? hh)


end Dicom.TagText
