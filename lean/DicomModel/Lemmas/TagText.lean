/-
Lemmas for the tag / selector text syntax (C14): hexadecimal print/parse, the tag parser as a
function of the text's shape, UTF-8 facts needed for panic-freedom, splitting on `.`, decimal items.
-/
import DicomModel.Model.TagText
import DicomModel.Lemmas.Digits
namespace Dicom.TagText

/-! ### hexadecimal digits -/

theorem hexVal_hexDigit (u : Bool) (n : Nat) (h : n < 16) : hexVal (hexDigit u n) = some n := by
  unfold hexVal hexDigit
  cases u <;> simp <;> split <;> (try split) <;> (try split) <;> (try split) <;>
    first | omega | (simp; omega) | simp_all

theorem isHexDigit_iff (b : Nat) : isHexDigit b = true ↔ (hexVal b).isSome = true := by
  unfold isHexDigit hexVal
  simp only [Bool.or_eq_true, Bool.and_eq_true, decide_eq_true_eq]
  split
  · simp; omega
  · split
    · simp; omega
    · split
      · simp; omega
      · simp; omega

theorem hexVal_lt {b v : Nat} (h : hexVal b = some v) : v < 16 ∧ b < 128 := by
  unfold hexVal at h
  split at h
  · simp at h; omega
  · split at h
    · simp at h; omega
    · split at h
      · simp at h; omega
      · simp at h

theorem not_cont_of_hexVal {b v : Nat} (h : hexVal b = some v) : isContinuation b = false := by
  have := (hexVal_lt h).2
  unfold isContinuation; simp; omega

/-- the parser's digit accumulation is the positional value -/
theorem fromHex4_eq (a b c d : Nat) : fromHex4 [a, b, c, d] = specHex4 a b c d := by
  unfold fromHex4 specHex4
  cases ha : hexVal a <;> cases hb : hexVal b <;> cases hc : hexVal c <;> cases hd : hexVal d <;>
    simp [ha, hb, hc, hd]
  omega

theorem all_hex_iff (a b c d : Nat) :
    [a, b, c, d].all isHexDigit = true ↔ (specHex4 a b c d).isSome = true := by
  simp only [List.all_cons, List.all_nil, Bool.and_true, Bool.and_eq_true, isHexDigit_iff]
  unfold specHex4
  cases hexVal a <;> cases hexVal b <;> cases hexVal c <;> cases hexVal d <;> simp

theorem specHex4_hex4 (u : Bool) (n : Nat) (h : n < 65536) :
    specHex4 (hexDigit u (n / 4096 % 16)) (hexDigit u (n / 256 % 16)) (hexDigit u (n / 16 % 16))
      (hexDigit u (n % 16)) = some n := by
  unfold specHex4
  rw [hexVal_hexDigit u _ (by omega), hexVal_hexDigit u _ (by omega), hexVal_hexDigit u _ (by omega),
    hexVal_hexDigit u _ (by omega)]
  simp only [Option.some.injEq]
  omega

theorem specHex4_lt {a b c d n : Nat} (h : specHex4 a b c d = some n) : n < 65536 := by
  unfold specHex4 at h
  cases ha : hexVal a <;> cases hb : hexVal b <;> cases hc : hexVal c <;> cases hd : hexVal d <;>
    simp [ha, hb, hc, hd] at h
  have := (hexVal_lt ha).1; have := (hexVal_lt hb).1; have := (hexVal_lt hc).1
  have := (hexVal_lt hd).1
  omega

/-! ### `parse_tag_part` by the shape of its input -/

/-- "index 4 is a char boundary" seen from the remainder: it is empty or does not start with a
continuation byte -/
def restOk : Bytes → Bool
  | [] => true
  | r :: _ => !isContinuation r

theorem boundary4 (a b c d : Nat) (rest : Bytes) :
    isCharBoundary (a :: b :: c :: d :: rest) 4 = restOk rest := by
  unfold isCharBoundary restOk
  cases rest <;> simp

theorem parseTagPart_cons4 (a b c d : Nat) (rest : Bytes) :
    parseTagPart (a :: b :: c :: d :: rest) =
      if restOk rest = true then
        match specHex4 a b c d with
        | some n => .ok (n, rest)
        | none => .err .number
      else .err .number := by
  unfold parseTagPart
  rw [boundary4]
  by_cases hr : restOk rest = true
  · simp only [hr, Bool.not_true, Bool.false_eq_true, if_false, if_true, List.take_succ_cons,
      List.take_zero, List.drop_succ_cons, List.drop_zero]
    cases hs : specHex4 a b c d with
    | none =>
      have : ¬ ([a, b, c, d].all isHexDigit = true) := by
        rw [all_hex_iff, hs]; simp
      simp [this]
    | some n =>
      have : [a, b, c, d].all isHexDigit = true := by rw [all_hex_iff, hs]; rfl
      simp only [this, Bool.not_true, Bool.false_eq_true, if_false, fromHex4_eq, hs]
  · simp [hr]

theorem parseTagPart_short {s : Bytes} (h : s.length < 4) : parseTagPart s = .err .number := by
  unfold parseTagPart isCharBoundary
  have : s[4]? = none := by simp; omega
  have h4 : (4 == s.length) = false := by simp; omega
  simp [this, h4]

/-- `parse_tag_part` never panics (the `expect` is unreachable, `split_at` is guarded) -/
theorem parseTagPart_ne_panic (s : Bytes) : parseTagPart s ≠ .panic := by
  match s with
  | [] | [_] | [_, _] | [_, _, _] => rw [parseTagPart_short (by simp)]; simp
  | a :: b :: c :: d :: rest =>
    rw [parseTagPart_cons4]
    split
    · split <;> simp
    · simp

/-! ### the tag parser by the shape of the text -/

theorem cont_of_ge {b : Nat} (h : b < 128) : isContinuation b = false := by
  unfold isContinuation; simp; omega

theorem specHex4_first {a b c d n : Nat} (h : specHex4 a b c d = some n) : isContinuation a = false := by
  unfold specHex4 at h
  cases ha : hexVal a with
  | none => simp [ha] at h
  | some v => exact not_cont_of_hexVal ha

theorem specHex4_none_of_cont {a b c d : Nat} (h : isContinuation a = true) : specHex4 a b c d = none := by
  cases hs : specHex4 a b c d with
  | none => rfl
  | some n => rw [specHex4_first hs] at h; cases h

theorem parseTag11 (p a b c d q e f g h r : Nat) (t : Tag) :
    parseTag [p, a, b, c, d, q, e, f, g, h, r] = .ok t ↔
      specTagOfText [p, a, b, c, d, q, e, f, g, h, r] = some t := by
  have hlen : [p, a, b, c, d, q, e, f, g, h, r].length = 11 := rfl
  unfold parseTag specTagOfText
  simp only [hlen, if_true, List.head?_cons]
  by_cases hp : p = 0x28
  · subst hp
    simp only [ne_eq, not_true_eq_false, if_false, sliceFrom, isCharBoundary, Nat.one_ne_zero,
      List.getElem?_cons_succ, List.getElem?_cons_zero, List.drop_succ_cons, List.drop_zero]
    by_cases ca : isContinuation a = true
    · simp [ca, Outcome.bind, specPair, specHex4_none_of_cont ca]
    · simp only [ca, Bool.not_false, if_true, Outcome.bind, parseTagPart_cons4, restOk]
      by_cases hq : q = 0x2C
      · subst hq
        simp only [cont_of_ge (by omega : 0x2C < 128), Bool.not_false, if_true]
        cases hab : specHex4 a b c d with
        | none => simp [specPair]
        | some G =>
          simp only [List.head?_cons, not_true_eq_false, if_false,
            List.getElem?_cons_succ, List.getElem?_cons_zero, List.drop_succ_cons, List.drop_zero]
          by_cases ce : isContinuation e = true
          · simp [ce, specPair, specHex4_none_of_cont ce]
          · simp only [ce, Bool.not_false, if_true, parseTagPart_cons4, restOk]
            by_cases hr : r = 0x29
            · subst hr
              simp only [cont_of_ge (by omega : 0x29 < 128), Bool.not_false, if_true]
              cases hef : specHex4 e f g h with
              | none => simp [specPair]
              | some E => simp [specPair]
            · by_cases cr : isContinuation r = true
              · simp [cr, hr]
              · simp only [cr, Bool.not_false, if_true]
                cases hef : specHex4 e f g h with
                | none => simp [hr]
                | some E => simp [hr]
      · by_cases cq : isContinuation q = true
        · simp [cq, hq]
        · simp only [cq, Bool.not_false, if_true]
          cases hab : specHex4 a b c d with
          | none => simp [hq]
          | some G => simp [hq]
  · simp [hp]

theorem parseTag9 (a b c d q e f g h : Nat) (t : Tag) :
    parseTag [a, b, c, d, q, e, f, g, h] = .ok t ↔
      specTagOfText [a, b, c, d, q, e, f, g, h] = some t := by
  have hlen : [a, b, c, d, q, e, f, g, h].length = 9 := rfl
  unfold parseTag specTagOfText
  simp only [hlen, if_true, (by decide : ¬ (9 = 11)), if_false, Outcome.bind, parseTagPart_cons4, restOk]
  by_cases hq : q = 0x2C
  · subst hq
    simp only [cont_of_ge (by omega : 0x2C < 128), Bool.not_false, if_true]
    cases hab : specHex4 a b c d with
    | none => simp [specPair]
    | some G =>
      simp only [List.head?_cons, ne_eq, not_true_eq_false, if_false, sliceFrom, isCharBoundary,
        Nat.one_ne_zero, List.getElem?_cons_succ, List.getElem?_cons_zero, List.drop_succ_cons,
        List.drop_zero]
      by_cases ce : isContinuation e = true
      · simp [ce, specPair, specHex4_none_of_cont ce]
      · simp only [ce, Bool.not_false, if_true, parseTagPart_cons4, restOk]
        cases hef : specHex4 e f g h with
        | none => simp [specPair]
        | some E => simp [specPair]
  · by_cases cq : isContinuation q = true
    · simp [cq, hq]
    · simp only [cq, Bool.not_false, if_true]
      cases hab : specHex4 a b c d with
      | none => simp [hq]
      | some G => simp [hq]

theorem parseTag8 (a b c d e f g h : Nat) (t : Tag) :
    parseTag [a, b, c, d, e, f, g, h] = .ok t ↔ specTagOfText [a, b, c, d, e, f, g, h] = some t := by
  have hlen : [a, b, c, d, e, f, g, h].length = 8 := rfl
  unfold parseTag specTagOfText
  simp only [hlen, if_true, (by decide : ¬ (8 = 11)), (by decide : ¬ (8 = 9)), if_false, Outcome.bind,
    parseTagPart_cons4, restOk]
  by_cases ce : isContinuation e = true
  · simp [ce, specPair, specHex4_none_of_cont ce]
  · simp only [ce, Bool.not_false, if_true]
    cases hab : specHex4 a b c d with
    | none => simp [specPair]
    | some G =>
      simp only [parseTagPart_cons4, restOk, if_true]
      cases hef : specHex4 e f g h with
      | none => simp [specPair]
      | some E => simp [specPair]

theorem exists_cons_of_length {s : Bytes} {n : Nat} (h : s.length = n + 1) :
    ∃ x xs, s = x :: xs ∧ xs.length = n := by
  cases s with
  | nil => simp at h
  | cons x xs => exact ⟨x, xs, rfl, by simpa using h⟩

/-- **Parsing accepts exactly the three layouts with hexadecimal digits of either case**, for
arbitrary byte strings: `s.parse::<Tag>() = Ok(t)` iff `s` denotes `t`. -/
theorem parseTag_ok_iff (s : Bytes) (t : Tag) : parseTag s = .ok t ↔ specTagOfText s = some t := by
  by_cases h11 : s.length = 11
  · obtain ⟨x0, s, rfl, k0⟩ := exists_cons_of_length h11
    obtain ⟨x1, s, rfl, k1⟩ := exists_cons_of_length k0
    obtain ⟨x2, s, rfl, k2⟩ := exists_cons_of_length k1
    obtain ⟨x3, s, rfl, k3⟩ := exists_cons_of_length k2
    obtain ⟨x4, s, rfl, k4⟩ := exists_cons_of_length k3
    obtain ⟨x5, s, rfl, k5⟩ := exists_cons_of_length k4
    obtain ⟨x6, s, rfl, k6⟩ := exists_cons_of_length k5
    obtain ⟨x7, s, rfl, k7⟩ := exists_cons_of_length k6
    obtain ⟨x8, s, rfl, k8⟩ := exists_cons_of_length k7
    obtain ⟨x9, s, rfl, k9⟩ := exists_cons_of_length k8
    obtain ⟨x10, s, rfl, k10⟩ := exists_cons_of_length k9
    cases s with
    | nil => exact parseTag11 ..
    | cons _ _ => simp at k10
  · by_cases h9 : s.length = 9
    · obtain ⟨x0, s, rfl, k0⟩ := exists_cons_of_length h9
      obtain ⟨x1, s, rfl, k1⟩ := exists_cons_of_length k0
      obtain ⟨x2, s, rfl, k2⟩ := exists_cons_of_length k1
      obtain ⟨x3, s, rfl, k3⟩ := exists_cons_of_length k2
      obtain ⟨x4, s, rfl, k4⟩ := exists_cons_of_length k3
      obtain ⟨x5, s, rfl, k5⟩ := exists_cons_of_length k4
      obtain ⟨x6, s, rfl, k6⟩ := exists_cons_of_length k5
      obtain ⟨x7, s, rfl, k7⟩ := exists_cons_of_length k6
      obtain ⟨x8, s, rfl, k8⟩ := exists_cons_of_length k7
      cases s with
      | nil => exact parseTag9 ..
      | cons _ _ => simp at k8
    · by_cases h8 : s.length = 8
      · obtain ⟨x0, s, rfl, k0⟩ := exists_cons_of_length h8
        obtain ⟨x1, s, rfl, k1⟩ := exists_cons_of_length k0
        obtain ⟨x2, s, rfl, k2⟩ := exists_cons_of_length k1
        obtain ⟨x3, s, rfl, k3⟩ := exists_cons_of_length k2
        obtain ⟨x4, s, rfl, k4⟩ := exists_cons_of_length k3
        obtain ⟨x5, s, rfl, k5⟩ := exists_cons_of_length k4
        obtain ⟨x6, s, rfl, k6⟩ := exists_cons_of_length k5
        obtain ⟨x7, s, rfl, k7⟩ := exists_cons_of_length k6
        cases s with
        | nil => exact parseTag8 ..
        | cons _ _ => simp at k7
      · have hp : parseTag s = .err .length := by simp [parseTag, h11, h9, h8]
        have hs : specTagOfText s = none := by
          unfold specTagOfText
          split
          · simp at h11
          · simp at h9
          · simp at h8
          · rfl
        rw [hp, hs]; simp

/-- a text that denotes no tag is never accepted -/
theorem parseTag_not_ok {s : Bytes} (h : specTagOfText s = none) (t : Tag) : parseTag s ≠ .ok t := by
  intro hp
  rw [(parseTag_ok_iff s t).mp hp] at h
  cases h

/-! ### panic-freedom -/

/-- in valid UTF-8 a byte that follows an ASCII byte starts a new character -/
def okAfterAscii : Bytes → Bool
  | a :: b :: rest => (decide (a ≥ 128) || !isContinuation b) && okAfterAscii (b :: rest)
  | _ => true

theorem okAfterAscii_tail {a : Nat} {s : Bytes} (h : okAfterAscii (a :: s) = true) : okAfterAscii s = true := by
  cases s with
  | nil => rfl
  | cons b r => simp [okAfterAscii] at h; exact h.2

theorem okAfterAscii_head {a b : Nat} {s : Bytes} (h : okAfterAscii (a :: b :: s) = true) (ha : a < 128) :
    isContinuation b = false := by
  simp [okAfterAscii] at h
  rcases h.1 with h1 | h1
  · omega
  · exact h1

theorem parseTag11_np (p a b c d q e f g h r : Nat) (ok : okAfterAscii [p, a, b, c, d, q, e, f, g, h, r] = true) :
    parseTag [p, a, b, c, d, q, e, f, g, h, r] ≠ .panic := by
  have hlen : [p, a, b, c, d, q, e, f, g, h, r].length = 11 := rfl
  unfold parseTag
  simp only [hlen, if_true, List.head?_cons]
  by_cases hp : p = 0x28
  · subst hp
    have ca := okAfterAscii_head ok (by omega)
    simp only [ne_eq, not_true_eq_false, if_false, sliceFrom, isCharBoundary, Nat.one_ne_zero,
      List.getElem?_cons_succ, List.getElem?_cons_zero, List.drop_succ_cons, List.drop_zero,
      ca, Bool.not_false, if_true, Outcome.bind, parseTagPart_cons4, restOk]
    by_cases hq : q = 0x2C
    · subst hq
      have ce := okAfterAscii_head (okAfterAscii_tail (okAfterAscii_tail (okAfterAscii_tail
        (okAfterAscii_tail (okAfterAscii_tail ok))))) (by omega)
      simp only [cont_of_ge (by omega : 0x2C < 128), Bool.not_false, if_true]
      cases hab : specHex4 a b c d with
      | none => simp
      | some G =>
        simp only [List.head?_cons, not_true_eq_false, if_false,
          List.getElem?_cons_succ, List.getElem?_cons_zero, List.drop_succ_cons, List.drop_zero,
          ce, Bool.not_false, if_true, parseTagPart_cons4, restOk]
        by_cases cr : isContinuation r = true
        · simp [cr]
        · simp only [cr, Bool.not_false, if_true]
          cases hef : specHex4 e f g h with
          | none => simp
          | some E => by_cases hr : r = 0x29 <;> simp [hr]
    · by_cases cq : isContinuation q = true
      · simp [cq]
      · simp only [cq, Bool.not_false, if_true]
        cases hab : specHex4 a b c d with
        | none => simp
        | some G => simp [hq]
  · simp [hp]

theorem parseTag9_np (a b c d q e f g h : Nat) (ok : okAfterAscii [a, b, c, d, q, e, f, g, h] = true) :
    parseTag [a, b, c, d, q, e, f, g, h] ≠ .panic := by
  have hlen : [a, b, c, d, q, e, f, g, h].length = 9 := rfl
  unfold parseTag
  simp only [hlen, if_true, (by decide : ¬ (9 = 11)), if_false, Outcome.bind, parseTagPart_cons4, restOk]
  by_cases hq : q = 0x2C
  · subst hq
    have ce := okAfterAscii_head (okAfterAscii_tail (okAfterAscii_tail (okAfterAscii_tail
      (okAfterAscii_tail ok)))) (by omega)
    simp only [cont_of_ge (by omega : 0x2C < 128), Bool.not_false, if_true]
    cases hab : specHex4 a b c d with
    | none => simp
    | some G =>
      simp only [List.head?_cons, ne_eq, not_true_eq_false, if_false, sliceFrom, isCharBoundary,
        Nat.one_ne_zero, List.getElem?_cons_succ, List.getElem?_cons_zero, List.drop_succ_cons,
        List.drop_zero, ce, Bool.not_false, if_true, parseTagPart_cons4, restOk]
      cases hef : specHex4 e f g h with
      | none => simp
      | some E => simp
  · by_cases cq : isContinuation q = true
    · simp [cq]
    · simp only [cq, Bool.not_false, if_true]
      cases hab : specHex4 a b c d with
      | none => simp
      | some G => simp [hq]

theorem parseTag8_np (a b c d e f g h : Nat) : parseTag [a, b, c, d, e, f, g, h] ≠ .panic := by
  have hlen : [a, b, c, d, e, f, g, h].length = 8 := rfl
  unfold parseTag
  simp only [hlen, if_true, (by decide : ¬ (8 = 11)), (by decide : ¬ (8 = 9)), if_false, Outcome.bind,
    parseTagPart_cons4, restOk]
  by_cases ce : isContinuation e = true
  · simp [ce]
  · simp only [ce, Bool.not_false, if_true]
    cases hab : specHex4 a b c d with
    | none => simp
    | some G =>
      simp only [parseTagPart_cons4, restOk, if_true]
      cases hef : specHex4 e f g h with
      | none => simp
      | some E => simp

/-- **No panic**: on a text in which no continuation byte follows an ASCII byte — in particular on
every valid UTF-8 string (`okAfterAscii_utf8`) — the tag parser returns `Ok` or `Err`. -/
theorem parseTag_ne_panic {s : Bytes} (ok : okAfterAscii s = true) : parseTag s ≠ .panic := by
  by_cases h11 : s.length = 11
  · obtain ⟨x0, s, rfl, k0⟩ := exists_cons_of_length h11
    obtain ⟨x1, s, rfl, k1⟩ := exists_cons_of_length k0
    obtain ⟨x2, s, rfl, k2⟩ := exists_cons_of_length k1
    obtain ⟨x3, s, rfl, k3⟩ := exists_cons_of_length k2
    obtain ⟨x4, s, rfl, k4⟩ := exists_cons_of_length k3
    obtain ⟨x5, s, rfl, k5⟩ := exists_cons_of_length k4
    obtain ⟨x6, s, rfl, k6⟩ := exists_cons_of_length k5
    obtain ⟨x7, s, rfl, k7⟩ := exists_cons_of_length k6
    obtain ⟨x8, s, rfl, k8⟩ := exists_cons_of_length k7
    obtain ⟨x9, s, rfl, k9⟩ := exists_cons_of_length k8
    obtain ⟨x10, s, rfl, k10⟩ := exists_cons_of_length k9
    cases s with
    | nil => exact parseTag11_np _ _ _ _ _ _ _ _ _ _ _ ok
    | cons _ _ => simp at k10
  · by_cases h9 : s.length = 9
    · obtain ⟨x0, s, rfl, k0⟩ := exists_cons_of_length h9
      obtain ⟨x1, s, rfl, k1⟩ := exists_cons_of_length k0
      obtain ⟨x2, s, rfl, k2⟩ := exists_cons_of_length k1
      obtain ⟨x3, s, rfl, k3⟩ := exists_cons_of_length k2
      obtain ⟨x4, s, rfl, k4⟩ := exists_cons_of_length k3
      obtain ⟨x5, s, rfl, k5⟩ := exists_cons_of_length k4
      obtain ⟨x6, s, rfl, k6⟩ := exists_cons_of_length k5
      obtain ⟨x7, s, rfl, k7⟩ := exists_cons_of_length k6
      obtain ⟨x8, s, rfl, k8⟩ := exists_cons_of_length k7
      cases s with
      | nil => exact parseTag9_np _ _ _ _ _ _ _ _ _ ok
      | cons _ _ => simp at k8
    · by_cases h8 : s.length = 8
      · obtain ⟨x0, s, rfl, k0⟩ := exists_cons_of_length h8
        obtain ⟨x1, s, rfl, k1⟩ := exists_cons_of_length k0
        obtain ⟨x2, s, rfl, k2⟩ := exists_cons_of_length k1
        obtain ⟨x3, s, rfl, k3⟩ := exists_cons_of_length k2
        obtain ⟨x4, s, rfl, k4⟩ := exists_cons_of_length k3
        obtain ⟨x5, s, rfl, k5⟩ := exists_cons_of_length k4
        obtain ⟨x6, s, rfl, k6⟩ := exists_cons_of_length k5
        obtain ⟨x7, s, rfl, k7⟩ := exists_cons_of_length k6
        cases s with
        | nil => exact parseTag8_np _ _ _ _ _ _ _ _
        | cons _ _ => simp at k7
      · simp [parseTag, h11, h9, h8]

/-! ### UTF-8 -/

theorem okAfterAscii_append_high {l E : Bytes} (hl : ∀ b ∈ l, b ≥ 128) (hE : okAfterAscii E = true) :
    okAfterAscii (l ++ E) = true := by
  induction l with
  | nil => simpa using hE
  | cons a r ih =>
    have ha : a ≥ 128 := hl a (by simp)
    have ih' := ih (fun b hb => hl b (by simp [hb]))
    cases hr : r ++ E with
    | nil => simp [hr, okAfterAscii]
    | cons b t =>
      rw [hr] at ih'
      simp only [List.cons_append, hr, okAfterAscii, Bool.and_eq_true, Bool.or_eq_true,
        decide_eq_true_eq]
      exact ⟨Or.inl ha, ih'⟩

theorem utf8EncodeChar_cases (c : Char) :
    (∃ n, n < 128 ∧ utf8EncodeChar c = [n]) ∨
      ((∀ b ∈ utf8EncodeChar c, b ≥ 128) ∧ ∃ x r, utf8EncodeChar c = x :: r ∧ x ≥ 192) := by
  unfold utf8EncodeChar
  simp only []
  split
  · exact Or.inl ⟨_, by assumption, rfl⟩
  · right
    split
    · refine ⟨?_, _, _, rfl, by omega⟩
      intro b hb; simp at hb; omega
    · split
      · refine ⟨?_, _, _, rfl, by omega⟩
        intro b hb; simp at hb; omega
      · refine ⟨?_, _, _, rfl, by omega⟩
        intro b hb; simp at hb; omega

/-- the UTF-8 encoding of any character sequence satisfies `okAfterAscii`, and does not start with
a continuation byte -/
theorem okAfterAscii_utf8_aux (cs : List Char) :
    okAfterAscii (utf8Encode cs) = true ∧ restOk (utf8Encode cs) = true := by
  induction cs with
  | nil => exact ⟨rfl, rfl⟩
  | cons c cs ih =>
    have e : utf8Encode (c :: cs) = utf8EncodeChar c ++ utf8Encode cs := by
      simp [utf8Encode]
    rw [e]
    rcases utf8EncodeChar_cases c with ⟨n, hn, hc⟩ | ⟨hall, x, r, hc, hx⟩
    · rw [hc]
      refine ⟨?_, ?_⟩
      · cases hE : utf8Encode cs with
        | nil => rfl
        | cons b t =>
          have := ih.2; rw [hE] at this
          have h1 := ih.1; rw [hE] at h1
          simp only [List.cons_append, List.nil_append, okAfterAscii, Bool.and_eq_true, Bool.or_eq_true,
            decide_eq_true_eq]
          exact ⟨Or.inr (by simpa [restOk] using this), h1⟩
      · simp [restOk, isContinuation]; omega
    · refine ⟨okAfterAscii_append_high hall ih.1, ?_⟩
      rw [hc]; simp [restOk, isContinuation]; omega

theorem okAfterAscii_utf8 (cs : List Char) : okAfterAscii (utf8Encode cs) = true :=
  (okAfterAscii_utf8_aux cs).1

/-! ### printed forms denote their tag -/

theorem specTagOfText_tagForm (f : Form) (u : Bool) (t : Tag) (hg : t.1 < 65536) (he : t.2 < 65536) :
    specTagOfText (tagForm f u t) = some t := by
  cases f <;>
    simp [tagForm, hex4, specTagOfText, specHex4_hex4 u _ hg, specHex4_hex4 u _ he, specPair]

/-! ### splitting on `.` -/

theorem splitOn_ne_nil (c : Nat) (s : Bytes) : splitOn c s ≠ [] := by
  induction s with
  | nil => simp [splitOn]
  | cons b bs ih =>
    unfold splitOn
    split
    · simp
    · split <;> simp

theorem splitOn_noSep {c : Nat} {p : Bytes} (h : c ∉ p) : splitOn c p = [p] := by
  induction p with
  | nil => rfl
  | cons b bs ih =>
    have hb : b ≠ c := fun e => h (by simp [e])
    have hbs : c ∉ bs := fun m => h (by simp [m])
    simp [splitOn, hb, ih hbs]

theorem splitOn_append_sep {c : Nat} {p : Bytes} (h : c ∉ p) (rest : Bytes) :
    splitOn c (p ++ c :: rest) = p :: splitOn c rest := by
  induction p with
  | nil => simp [splitOn]
  | cons b bs ih =>
    have hb : b ≠ c := fun e => h (by simp [e])
    have hbs : c ∉ bs := fun m => h (by simp [m])
    simp [splitOn, hb, ih hbs]

theorem splitOn_joinDots {ps : List Bytes} (hne : ps ≠ []) (h : ∀ p ∈ ps, 0x2E ∉ p) :
    splitOn 0x2E (joinDots ps) = ps := by
  induction ps with
  | nil => exact absurd rfl hne
  | cons p rest ih =>
    cases rest with
    | nil => simp [joinDots, splitOn_noSep (h p (by simp))]
    | cons q rest' =>
      simp only [joinDots]
      rw [splitOn_append_sep (h p (by simp)), ih (by simp) (fun x hx => h x (by simp [hx]))]

/-! ### decimal item indices -/

theorem toDec_digits (n : Nat) : ∀ b ∈ Digits.toDec n, Digits.isDigit b = true := by
  induction n using Nat.strongRecOn with
  | _ n ih =>
    by_cases h : n < 10
    · rw [Digits.toDec_lt h]; intro b hb; simp at hb; subst hb; simp [Digits.isDigit]; omega
    · rw [Digits.toDec_ge (by omega)]
      intro b hb
      simp only [List.mem_append, List.mem_singleton] at hb
      rcases hb with hb | hb
      · exact ih (n / 10) (by omega) b hb
      · subst hb; simp [Digits.isDigit]; omega

theorem toDec_ne_nil (n : Nat) : Digits.toDec n ≠ [] := by
  by_cases h : n < 10
  · rw [Digits.toDec_lt h]; simp
  · rw [Digits.toDec_ge (by omega)]; simp

theorem foldl_toDec (n : Nat) :
    (Digits.toDec n).foldl (fun acc b => acc * 10 + (b - 48)) 0 = n := by
  induction n using Nat.strongRecOn with
  | _ n ih =>
    by_cases h : n < 10
    · rw [Digits.toDec_lt h]; simp
    · rw [Digits.toDec_ge (by omega), List.foldl_append, ih (n / 10) (by omega)]
      simp; omega

/-- `i.to_string().parse::<u32>() = Ok(i)` -/
theorem parseU32_toDec {n : Nat} (h : n < 4294967296) : parseU32 (Digits.toDec n) = some n := by
  unfold parseU32
  have hd := toDec_digits n
  have hne := toDec_ne_nil n
  have hplus : stripPlus (Digits.toDec n) = Digits.toDec n := by
    cases hh : Digits.toDec n with
    | nil => rfl
    | cons b r =>
      have : Digits.isDigit b = true := hd b (by simp [hh])
      have hb : b ≠ 0x2B := by intro e; subst e; simp [Digits.isDigit] at this
      unfold stripPlus
      split
      · rename_i heq; simp at heq; exact absurd heq.1 hb
      · rfl
  rw [hplus]
  have hany : (Digits.toDec n).any (fun b => !Digits.isDigit b) = false := by
    rw [List.any_eq_false]; intro b hb; simp [hd b hb]
  have hemp : (Digits.toDec n).isEmpty = false := by
    cases hh : Digits.toDec n with
    | nil => exact absurd hh hne
    | cons _ _ => rfl
  simp [hany, hemp, foldl_toDec, h]


end Dicom.TagText
