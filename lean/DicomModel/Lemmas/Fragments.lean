import DicomModel.Lemmas.CollWhole3
/-
C06: pixel data fragments and the basic offset table retrieved one by one through the collector
(repaired code: fixes 1b02116, 4dbd2d8), on the reference encoding of a canonical data set.
-/
set_option linter.unusedSimpArgs false
set_option linter.unusedVariables false
namespace Dicom.CW
open Dicom.LE Dicom.LS Dicom.DC Dicom.Ref

/-- a token `skip_until` of the fragment functions stops at -/
def pixelStartTok : Token → Bool
  | .pixelSequenceStart => true
  | .elementHeader h => h.tag = Tag.pixelData && h.len ≠ undefinedLen
  | _ => false

/-- `skip_until` walks over an annotated run that contains no pixel data start -/
theorem skip_run : ∀ {l m : LState} {toks : List Token}, LRun l toks m → (∀ t ∈ toks, pixelStartTok t = false) →
    ∀ (fuel : Nat) (st : CState), toks.length < fuel →
    ∃ st', skipUntilPixel fuel ⟨l, st⟩ = skipUntilPixel (fuel - toks.length) ⟨m, st'⟩ := by
  intro l m toks h
  induction h with
  | nil l => intro _ fuel st _; exact ⟨st, by simp⟩
  | @cons l l1 l2 t ts s _ ih =>
    intro hno fuel st hf
    obtain ⟨k, rfl⟩ : ∃ k, fuel = k + 1 := ⟨fuel - 1, by simp at hf; omega⟩
    have ht : pixelStartTok t = false := hno t (by simp)
    obtain ⟨st', h2⟩ := ih (fun x hx => hno x (by simp [hx])) k .inDataset (by simp at hf; omega)
    refine ⟨st', ?_⟩
    obtain ⟨_, _, _, _, lt, l0, ha, hc, hl⟩ := s
    rw [skipUntilPixel]
    simp only [ha]
    cases lt with
    | tok t0 =>
      obtain ⟨e1, e2⟩ := hc
      subst e1
      have hps : isPixelStart (.tok t) = false := by
        cases t <;> first | rfl | exact ht | (cases ht; done)
      have hl1 : l0 = l1 := by rw [hl, e2]
      simp only [hps, Bool.false_eq_true, if_false, LTok.skip, hl1]
      have : ({ l1 with dec := l1.dec } : LState) = l1 := rfl
      rw [this, h2]
      simp
    | lazyValue hh =>
      obtain ⟨v, e1, e2, e3⟩ := hc
      have hl1 : ({ l0 with dec := after l0.dec hh.len } : LState) = l1 := by rw [hl, e3]
      simp only [isPixelStart, Bool.false_eq_true, if_false, LTok.skip, skip_after, hl1]
      rw [h2]; simp
    | lazyItemValue len =>
      obtain ⟨e1, e3⟩ := hc
      have hl1 : ({ l0 with dec := after l0.dec len } : LState) = l1 := by rw [hl, e3]
      simp only [isPixelStart, Bool.false_eq_true, if_false, LTok.skip, skip_after, hl1]
      rw [h2]; simp

/-- `skip_until` up to and including `PixelSequenceStart` -/
theorem skip_to_pixel {l l' : LState} {pre rest : List Token}
    (h : LRun l (pre ++ .pixelSequenceStart :: rest) l') (hno : ∀ t ∈ pre, pixelStartTok t = false)
    (fuel : Nat) (st : CState) (hf : pre.length < fuel) :
    ∃ m st', skipUntilPixel fuel ⟨l, st⟩ = .ok (true, ⟨m, st'⟩) ∧ LRun m rest l' ∧ m.dec.ts = l.dec.ts := by
  obtain ⟨m0, r1, r2⟩ := LRun.split pre h
  obtain ⟨m1, s1, r3⟩ := r2.head
  obtain ⟨st', h1⟩ := skip_run r1 hno fuel st hf
  refine ⟨m1, st', ?_, r3, by rw [s1.ts, LRun.ts r1]⟩
  rw [h1]
  have : fuel - pre.length = (fuel - pre.length - 1) + 1 := by omega
  rw [this, skipUntilPixel]
  simp [lstep_adv s1 rfl, isPixelStart]

/-- one call of the fragment loop in front of an item end and the remaining fragment items -/
theorem frag_loop (rest : List Token) (l' : LState) (f : Bytes) (more : List Bytes) (l : LState) (fuel : Nat)
    (hf1 : f.length % 2 = 0) (hf2 : f.length < 4294967295)
    (hr : LRun l (.itemEnd :: ((f :: more).flatMap fragTokens ++ .sequenceEnd :: rest)) l') (hfu : 3 < fuel) :
    ∃ m, nextFragmentLoop fuel l = .ok (some (f.length, f), false, m) ∧
      LRun m (.itemEnd :: (more.flatMap fragTokens ++ .sequenceEnd :: rest)) l' := by
  obtain ⟨m0, s0, r0⟩ := hr.head
  obtain ⟨k, rfl⟩ : ∃ k, fuel = k + 3 := ⟨fuel - 3, by omega⟩
  by_cases hz : f = []
  · subst hz
    have hft : fragTokens [] = [.itemStart 0, .itemEnd] := by simp [fragTokens]
    simp only [List.flatMap_cons, hft, List.cons_append, List.nil_append] at r0
    obtain ⟨m1, s1, r1⟩ := r0.head
    refine ⟨m1, ?_, r1⟩
    rw [nextFragmentLoop]
    simp only [lstep_adv s0 rfl]
    rw [nextFragmentLoop]
    simp [lstep_adv s1 rfl]
  · have he : f.isEmpty = false := by cases f <;> simp_all
    have hm : f.length % 4294967296 = f.length := Nat.mod_eq_of_lt (by omega)
    have hft : fragTokens f = [.itemStart f.length, .itemValue f, .itemEnd] := by simp [fragTokens, he, hm]
    simp only [List.flatMap_cons, hft, List.cons_append, List.nil_append] at r0
    obtain ⟨m1, s1, r1⟩ := r0.head
    obtain ⟨m2, s2, r2⟩ := r1.head
    obtain ⟨l0, ha, hb, hd, hl, _⟩ := item_value_len s1 s2
    refine ⟨m2, ?_, r2⟩
    have hne : ∃ j, f.length = j + 1 := by
      cases f with
      | nil => exact absurd rfl hz
      | cons a r => exact ⟨r.length, rfl⟩
    obtain ⟨j, hj⟩ := hne
    have hm2 : ({ l0 with dec := after l0.dec f.length } : LState) = m2 := by rw [hl, hd]
    rw [nextFragmentLoop]
    simp only [lstep_adv s0 rfl]
    rw [nextFragmentLoop]
    have h1 := lstep_adv s1 rfl
    rw [hj] at h1
    simp only [h1]
    rw [nextFragmentLoop]
    rw [hj] at ha
    simp only [ha, Dec.readToVec]
    rw [← hj, ← hb]
    have : ({ l0 with dec := { l0.dec with rest := l0.dec.rest.drop f.length, pos := l0.dec.pos + f.length } } : LState) = m2 := hm2
    rw [this]

/-- after the last fragment: the sequence delimiter ends the pixel data -/
theorem frag_loop_end (rest : List Token) (l' : LState) (l : LState) (fuel : Nat)
    (hr : LRun l (.itemEnd :: (([] : List Bytes).flatMap fragTokens ++ .sequenceEnd :: rest)) l') (hfu : 2 < fuel) :
    ∃ m, nextFragmentLoop fuel l = .ok (none, true, m) := by
  obtain ⟨m0, s0, r0⟩ := hr.head
  simp only [List.flatMap_nil, List.nil_append] at r0
  obtain ⟨m1, s1, r1⟩ := r0.head
  obtain ⟨k, rfl⟩ : ∃ k, fuel = k + 2 := ⟨fuel - 2, by omega⟩
  refine ⟨m1, ?_⟩
  rw [nextFragmentLoop]
  simp only [lstep_adv s0 rfl]
  rw [nextFragmentLoop]
  simp [lstep_adv s1 rfl]

/-- the fragments come one per call, in order, each with its length; then `None`, and the collector is in
state `PixelDataEnd` (where every further call returns `None`) -/
inductive FragCalls (fuel : Nat) : Coll → List Bytes → Prop
  | done {c c' : Coll} : c.readNextFragment fuel = .ok (none, c') → c'.state = .pixelDataEnd → FragCalls fuel c []
  | next {c c' : Coll} {f : Bytes} {more : List Bytes} :
      c.readNextFragment fuel = .ok (some (f.length, f), c') → FragCalls fuel c' more → FragCalls fuel c (f :: more)

theorem after_end (fuel : Nat) (c : Coll) (h : c.state = .pixelDataEnd) : c.readNextFragment fuel = .ok (none, c) := by
  simp [Coll.readNextFragment, h]

theorem frag_calls (rest : List Token) (l' : LState) (fuel : Nat) (hfu : 3 < fuel) : ∀ (frags : List Bytes) (l : LState),
    (∀ f ∈ frags, f.length % 2 = 0 ∧ f.length < 4294967295) →
    LRun l (.itemEnd :: (frags.flatMap fragTokens ++ .sequenceEnd :: rest)) l' →
    FragCalls fuel ⟨l, .inPixelData⟩ frags
  | [], l, _, hr => by
    obtain ⟨m, h1⟩ := frag_loop_end rest l' l fuel hr (by omega)
    exact .done (c' := ⟨m, .pixelDataEnd⟩) (by simp [Coll.readNextFragment, h1]) rfl
  | f :: more, l, hok, hr => by
    obtain ⟨m, h1, r1⟩ := frag_loop rest l' f more l fuel (hok f (by simp)).1 (hok f (by simp)).2 hr hfu
    exact .next (c' := ⟨m, .inPixelData⟩) (by simp [Coll.readNextFragment, h1])
      (frag_calls rest l' fuel hfu more m (fun g hg => hok g (by simp [hg])) r1)

/-! ### the basic offset table item -/

/-- reading the offset table bytes as 32-bit numbers gives the table -/
theorem table_of_bytes {bot : List Nat} (hb : ∀ o ∈ bot, o < 4294967296) (be : Bool) (l0 : LState)
    (hts : l0.dec.ts.bigEndian = be) (hbytes : bot.flatMap (enc32 be) = l0.dec.rest.take (bot.length * 4)) :
    l0.dec.readU32ToVec (bot.length * 4) = .ok (bot, after l0.dec (bot.length * 4)) := by
  have hsplit : l0.dec.rest = bot.flatMap (enc32 be) ++ l0.dec.rest.drop (bot.length * 4) := by
    conv => lhs; rw [← List.take_append_drop (bot.length * 4) l0.dec.rest]
    rw [← hbytes]
  have hrd : rdMany (rd32 l0.dec.ts.bigEndian) (bot.length * 4 / 4) l0.dec.rest =
      some (bot, l0.dec.rest.drop (bot.length * 4)) := by
    rw [hts, Nat.mul_div_cancel _ (by decide : 0 < 4)]
    have := rdMany_flatMap (rd32 be) (enc32 be) id (· < 4294967296) (fun a r ha => rd32_enc32 _ a ha r)
      (l0.dec.rest.drop (bot.length * 4)) bot hb
    rw [List.map_id, ← hsplit] at this
    exact this
  have hmod : bot.length * 4 % 4 = 0 := Nat.mul_mod_left _ _
  simp only [Dec.readU32ToVec, hrd, hmod, List.drop_zero, after]

/-- `read_basic_offset_table`'s token loop on the offset table item -/
theorem bot_table {bot : List Nat} {frags : List Bytes} (ok : PixOk bot frags) (be : Bool) (tail : List Token)
    (l l' : LState) (hbe : l.dec.ts.bigEndian = be) (fuel : Nat) (hfu : 2 < fuel)
    (hr : LRun l ((botTokens bot).map (normTok be) ++ tail) l') :
    ∃ m, offsetTableLoop fuel l = .ok (some (4 * bot.length, bot), m) ∧ LRun m (.itemEnd :: tail) l' := by
  rw [norm_botTokens be bot ok.botLen] at hr
  obtain ⟨k, rfl⟩ : ∃ k, fuel = k + 2 := ⟨fuel - 2, by omega⟩
  by_cases hz : bot = []
  · subst hz
    simp only [if_true, List.cons_append, List.nil_append] at hr
    obtain ⟨m1, s1, r1⟩ := hr.head
    refine ⟨m1, ?_, r1⟩
    rw [offsetTableLoop]
    simp [lstep_adv s1 rfl]
  · simp only [hz, if_false, List.cons_append, List.nil_append] at hr
    obtain ⟨m1, s1, r1⟩ := hr.head
    obtain ⟨m2, s2, r2⟩ := r1.head
    obtain ⟨l0, ha, hb, hd, hl, hts0⟩ := item_value_len s1 s2
    refine ⟨m2, ?_, r2⟩
    obtain ⟨j, hj⟩ : ∃ j, bot.length * 4 = j + 1 := by
      cases bot with
      | nil => exact absurd rfl hz
      | cons a r => exact ⟨r.length * 4 + 3, by simp; omega⟩
    have hrd := table_of_bytes ok.bot be l0 (by rw [hts0]; exact hbe) hb
    have hm2 : ({ l0 with dec := after l0.dec (bot.length * 4) } : LState) = m2 := by rw [hl, hd]
    have e4 : 4 * bot.length = bot.length * 4 := by omega
    rw [offsetTableLoop]
    have h1 := lstep_adv s1 rfl
    rw [hj] at h1
    simp only [h1]
    rw [offsetTableLoop]
    rw [hj] at ha
    simp only [ha]
    rw [← hj, hrd, e4]
    simp only [hm2]

/-- `read_next_fragment`'s token loop on the offset table item: the table's bytes -/
theorem bot_fragment {bot : List Nat} {frags : List Bytes} (ok : PixOk bot frags) (be : Bool) (tail : List Token)
    (l l' : LState) (fuel : Nat) (hfu : 2 < fuel)
    (hr : LRun l ((botTokens bot).map (normTok be) ++ tail) l') :
    ∃ m, nextFragmentLoop fuel l = .ok (some (4 * bot.length, bot.flatMap (enc32 be)), false, m) ∧
      LRun m (.itemEnd :: tail) l' := by
  rw [norm_botTokens be bot ok.botLen] at hr
  obtain ⟨k, rfl⟩ : ∃ k, fuel = k + 2 := ⟨fuel - 2, by omega⟩
  by_cases hz : bot = []
  · subst hz
    simp only [if_true, List.cons_append, List.nil_append] at hr
    obtain ⟨m1, s1, r1⟩ := hr.head
    refine ⟨m1, ?_, r1⟩
    rw [nextFragmentLoop]
    simp [lstep_adv s1 rfl]
  · simp only [hz, if_false, List.cons_append, List.nil_append] at hr
    obtain ⟨m1, s1, r1⟩ := hr.head
    obtain ⟨m2, s2, r2⟩ := r1.head
    obtain ⟨l0, ha, hb, hd, hl, _⟩ := item_value_len s1 s2
    refine ⟨m2, ?_, r2⟩
    obtain ⟨j, hj⟩ : ∃ j, bot.length * 4 = j + 1 := by
      cases bot with
      | nil => exact absurd rfl hz
      | cons a r => exact ⟨r.length * 4 + 3, by simp; omega⟩
    have hm2 : ({ l0 with dec := after l0.dec (bot.length * 4) } : LState) = m2 := by rw [hl, hd]
    have e4 : 4 * bot.length = bot.length * 4 := by omega
    rw [nextFragmentLoop]
    have h1 := lstep_adv s1 rfl
    rw [hj] at h1
    simp only [h1]
    rw [nextFragmentLoop]
    rw [hj] at ha
    simp only [ha, Dec.readToVec]
    rw [← hj, ← hb, e4]
    have : ({ l0 with dec := { l0.dec with rest := l0.dec.rest.drop (bot.length * 4), pos := l0.dec.pos + bot.length * 4 } } : LState) = m2 := hm2
    rw [this]

/-! ### a data set with a top-level encapsulated Pixel Data element -/

def appendElems : Elems → Elems → Elems
  | .nil, b => b
  | .cons e r, b => .cons e (appendElems r b)

theorem tokens_append : ∀ a b : Elems, (appendElems a b).tokens = a.tokens ++ b.tokens
  | .nil, b => by simp [appendElems, Elems.tokens]
  | .cons e r, b => by simp [appendElems, Elems.tokens, tokens_append r b]

theorem pix_of_append (ts : Syntax) (dict : Tag → Option VR) (bot : List Nat) (frags : List Bytes) (post : Elems) :
    ∀ (a : Elems), canonElems ts dict (appendElems a (.cons (.pix bot frags) post)) = true → PixOk bot frags
  | .nil, h => by simp only [appendElems, canonElems, Bool.and_eq_true] at h; exact pixOk_of_canon h.1
  | .cons e r, h => by
    simp only [appendElems, canonElems, Bool.and_eq_true] at h
    exact pix_of_append ts dict bot frags post r h.2

/-- **fragments one by one**: for the encoding of a canonical data set `pre ++ [Pixel Data (bot, frags)] ++ post`
in which no pixel data occurs (at any depth) before the Pixel Data element:
 * `read_basic_offset_table` returns the byte length `4·|bot|` and the table `bot` — also when it is empty —
   and the following `read_next_fragment` calls return the fragments one per call, in order, each with its
   length — zero-length fragments included — then `None`, for ever (`FragCalls`);
 * without the table call, the first `read_next_fragment` returns the table's bytes, the following calls
   the fragments as above. -/
theorem fragments_ref (ts : Syntax) (dict : Tag → Option VR) (pre post : Elems) (bot : List Nat) (frags : List Bytes)
    (hd : dictOk ts dict = true)
    (hc : canonElems ts dict (appendElems pre (.cons (.pix bot frags) post)) = true)
    (hno : ∀ t ∈ pre.tokens, pixelStartTok t = false) :
    let t := appendElems pre (.cons (.pix bot frags) post)
    let fuel := (encElems ts t).length + 4
    (∃ c1, (Coll.new ts dict (encElems ts t)).readBasicOffsetTable fuel = .ok (some (4 * bot.length, bot), c1) ∧
        FragCalls fuel c1 frags) ∧
    (∃ c1, (Coll.new ts dict (encElems ts t)).readNextFragment fuel =
        .ok (some (4 * bot.length, bot.flatMap (enc32 ts.bigEndian)), c1) ∧ FragCalls fuel c1 frags) := by
  intro t fuel
  obtain ⟨lend, l'', lr, _, _⟩ := lrun_ref ts dict t hd hc
  have hlen := tokens_le_elems ts t
  have hpix : PixOk bot frags := pix_of_append ts dict bot frags post pre hc
  -- the token run: pre, PixelSequenceStart, the table item, the fragment items, SequenceEnd, post
  have htoks : t.tokens.map (normTok ts.bigEndian) =
      pre.tokens.map (normTok ts.bigEndian) ++ .pixelSequenceStart ::
        ((botTokens bot).map (normTok ts.bigEndian) ++
          (frags.flatMap fragTokens ++ .sequenceEnd :: post.tokens.map (normTok ts.bigEndian))) := by
    simp [t, tokens_append, Elems.tokens, Elem.tokens, normTok, norm_frags, List.append_assoc]
  rw [htoks] at lr
  have hno' : ∀ x ∈ pre.tokens.map (normTok ts.bigEndian), pixelStartTok x = false := by
    intro x hx
    obtain ⟨y, hy, rfl⟩ := List.mem_map.mp hx
    have := hno y hy
    cases y <;> simp_all [normTok, pixelStartTok]
  have hpl : (pre.tokens.map (normTok ts.bigEndian)).length < fuel := by
    have : pre.tokens.length ≤ t.tokens.length := by simp [t, tokens_append]
    simp only [List.length_map, fuel]; omega
  obtain ⟨m1, st1, hskip, r1, hts1⟩ := skip_to_pixel lr hno' fuel .fileMeta hpl
  have hbe : m1.dec.ts.bigEndian = ts.bigEndian := by rw [hts1]; rfl
  have hfu : 3 < fuel := by simp only [fuel]; omega
  constructor
  · obtain ⟨m2, h2, r2⟩ := bot_table hpix ts.bigEndian _ m1 lend hbe fuel (by omega) r1
    refine ⟨⟨m2, .inPixelData⟩, ?_, frag_calls _ lend fuel hfu frags m2 hpix.frags r2⟩
    simp [Coll.readBasicOffsetTable, Coll.new, hskip, h2]
  · obtain ⟨m2, h2, r2⟩ := bot_fragment hpix ts.bigEndian _ m1 lend fuel (by omega) r1
    refine ⟨⟨m2, .inPixelData⟩, ?_, frag_calls _ lend fuel hfu frags m2 hpix.frags r2⟩
    simp [Coll.readNextFragment, Coll.new, hskip, h2]

end Dicom.CW
