import DicomModel.Model.Writer
/-
The data set writer state machine equals a structurally recursive writer, for trees of any depth
(default strategy `SetUndefined`). Used by C04 / C01 (and available to C02's `writer_eq_ref`).
-/
namespace Dicom

/-- `Except.bind` spelled out (core `Except` has no simp lemmas we rely on) -/
def exBind {ε α β : Type} (x : Except ε α) (f : α → Except ε β) : Except ε β :=
  match x with
  | .ok a => f a
  | .error e => .error e

theorem writeAll_append (a b : List Token) : ∀ (w : Writer),
    w.writeAll (a ++ b) = exBind (w.writeAll a) (fun w' => w'.writeAll b) := by
  induction a with
  | nil => intro w; rfl
  | cons t r ih =>
    intro w
    simp only [List.cons_append, Writer.writeAll]
    cases h : w.write t with
    | ok w1 => simp only [ih w1]
    | error e => rfl

/-- offset table item as written under `SetUndefined` (fragment items keep their defined length) -/
def recBot (e : Enc) (bot : List Nat) : Enc :=
  if bot.length * 4 % 4294967296 = 0 then e.itemHeader 0
  else (e.itemHeader (bot.length * 4 % 4294967296)).offsetTable bot

def recFrag (e : Enc) (f : Bytes) : Enc :=
  if f.isEmpty then e.itemHeader 0 else (e.itemHeader (f.length % 4294967296)).writeBytes f

def recFrags (e : Enc) : List Bytes → Enc
  | [] => e
  | f :: r => recFrags (recFrag e f) r

mutual
/-- the recursive writer: every sequence and item with undefined length and its delimiter -/
def recElem (e : Enc) : Elem → Except WErr Enc
  | .prim tag vr len v => e.encodePrimitiveElement ⟨tag, vr, len⟩ v
  | .seq tag _ items =>
    exBind (e.elementHeader ⟨tag, .SQ, undefinedLen⟩) fun e1 =>
    exBind (recItems e1 items) fun e2 => .ok e2.seqDelimiter
  | .pix bot frags =>
    exBind (e.elementHeader ⟨Tag.pixelData, .OB, undefinedLen⟩) fun e1 =>
    .ok (recFrags (recBot e1 bot) frags).seqDelimiter
def recItems (e : Enc) : Items → Except WErr Enc
  | .nil => .ok e
  | .cons _ elems rest =>
    exBind (recElems (e.itemHeader undefinedLen) elems) fun e1 => recItems e1.itemDelimiter rest
def recElems (e : Enc) : Elems → Except WErr Enc
  | .nil => .ok e
  | .cons el rest => exBind (recElem e el) fun e1 => recElems e1 rest
end

mutual
/-- well-formed for the token generator: a primitive element is neither of VR SQ nor an
undefined-length OB Pixel Data header (those need a sequence value); fragments are shorter than 4 GiB - 1 -/
def Elem.WF : Elem → Prop
  | .prim tag vr len _ => vr ≠ .SQ ∧ ¬ (vr = .OB ∧ tag = Tag.pixelData ∧ len = undefinedLen)
  | .seq _ _ items => items.WF
  | .pix _ frags => ∀ f ∈ frags, f.length < 4294967295
def Items.WF : Items → Prop
  | .nil => True
  | .cons _ elems rest => elems.WF ∧ rest.WF
def Elems.WF : Elems → Prop
  | .nil => True
  | .cons e rest => e.WF ∧ rest.WF
end

def pixHdr : ElemHeader := ⟨Tag.pixelData, .OB, undefinedLen⟩

/-- fragments inside an open pixel sequence -/
theorem writeAll_frags (frags : List Bytes) (hf : ∀ f ∈ frags, f.length < 4294967295) :
    ∀ (enc : Enc) (st : List SeqTok),
      (Writer.mk enc st (some pixHdr) .setUndefined).writeAll (frags.flatMap fragTokens)
        = .ok (Writer.mk (recFrags enc frags) st (some pixHdr) .setUndefined) := by
  induction frags with
  | nil => intro enc st; rfl
  | cons f r ih =>
    intro enc st
    rw [List.flatMap_cons, writeAll_append]
    have hr := ih (fun x hx => hf x (by simp [hx]))
    have hflen : f.length % 4294967296 ≠ undefinedLen := by
      have := hf f (by simp); unfold undefinedLen; omega
    have hfirst : (Writer.mk enc st (some pixHdr) .setUndefined).writeAll (fragTokens f)
        = .ok (Writer.mk (recFrag enc f) st (some pixHdr) .setUndefined) := by
      unfold fragTokens recFrag
      by_cases he : f.isEmpty = true
      · simp [he, Writer.writeAll, Writer.write, Writer.writeImpl, pixHdr, ElemHeader.isEncapsulatedPixeldata,
          undefinedLen]
      · simp [he, Writer.writeAll, Writer.write, Writer.writeImpl, pixHdr, ElemHeader.isEncapsulatedPixeldata,
          hflen]
    rw [hfirst]
    simp only [exBind]
    rw [hr]
    rfl

theorem writeAll_bot (bot : List Nat) (enc : Enc) (st : List SeqTok) :
    (Writer.mk enc st (some pixHdr) .setUndefined).writeAll (botTokens bot)
      = .ok (Writer.mk (recBot enc bot) st (some pixHdr) .setUndefined) := by
  unfold botTokens recBot
  by_cases h0 : bot.length * 4 % 4294967296 = 0
  · simp [h0, Writer.writeAll, Writer.write, Writer.writeImpl, pixHdr, ElemHeader.isEncapsulatedPixeldata, undefinedLen]
  · have hu : bot.length * 4 % 4294967296 ≠ undefinedLen := by unfold undefinedLen; omega
    simp [h0, Writer.writeAll, Writer.write, Writer.writeImpl, pixHdr, ElemHeader.isEncapsulatedPixeldata, hu]

/-- the writer between two elements: no pending header, default strategy -/
abbrev idle (enc : Enc) (st : List SeqTok) : Writer := Writer.mk enc st none .setUndefined

mutual
/-- **the state machine writer = the recursive writer**, element level -/
theorem writeAll_elem : ∀ (el : Elem), el.WF → ∀ (enc : Enc) (st : List SeqTok),
    (idle enc st).writeAll el.tokens = exBind (recElem enc el) (fun e' => .ok (idle e' st))
  | .prim tag vr len v, hwf, enc, st => by
    obtain ⟨h1, h2⟩ := hwf
    simp only [Elem.tokens, h1, h2, if_false, Writer.writeAll, Writer.write, Writer.writeImpl, recElem, idle]
    cases h : enc.encodePrimitiveElement ⟨tag, vr, len⟩ v with
    | ok e' => simp [exBind]
    | error x => simp [exBind]
  | .seq tag len items, hwf, enc, st => by
    simp only [Elem.tokens, Writer.writeAll, Writer.write, Writer.writeImpl, recElem, idle]
    cases h : enc.elementHeader ⟨tag, .SQ, undefinedLen⟩ with
    | error x => simp [exBind]
    | ok e1 =>
      simp only [exBind]
      rw [writeAll_append]
      have := writeAll_items items hwf e1 (⟨false, undefinedLen⟩ :: st)
      simp only [idle] at this
      rw [this]
      cases h2 : recItems e1 items with
      | error x => simp [exBind]
      | ok e2 =>
        simp [exBind, Writer.writeAll, Writer.write, Writer.writeImpl]
  | .pix bot frags, hwf, enc, st => by
    simp only [Elem.tokens, Writer.writeAll, Writer.write, Writer.writeImpl, recElem, idle]
    cases h : enc.elementHeader ⟨Tag.pixelData, .OB, undefinedLen⟩ with
    | error x => simp [exBind]
    | ok e1 =>
      simp only [exBind]
      rw [List.append_assoc, writeAll_append]
      have hb := writeAll_bot bot e1 (⟨false, undefinedLen⟩ :: st)
      simp only [pixHdr] at hb
      rw [hb]
      simp only [exBind]
      rw [writeAll_append]
      have hf := writeAll_frags frags hwf (recBot e1 bot) (⟨false, undefinedLen⟩ :: st)
      simp only [pixHdr] at hf
      rw [hf]
      simp [exBind, Writer.writeAll, Writer.write, Writer.writeImpl]
/-- items level -/
theorem writeAll_items : ∀ (its : Items), its.WF → ∀ (enc : Enc) (st : List SeqTok),
    (idle enc st).writeAll its.tokens = exBind (recItems enc its) (fun e' => .ok (idle e' st))
  | .nil, _, enc, st => by simp [Items.tokens, Writer.writeAll, recItems, exBind]
  | .cons len elems rest, hwf, enc, st => by
    simp only [Items.tokens, Writer.writeAll, Writer.write, Writer.writeImpl, recItems, idle,
      Option.map_none, Option.getD_none, Bool.false_eq_true, if_false]
    rw [writeAll_append]
    have := writeAll_elems elems hwf.1 (enc.itemHeader undefinedLen) (⟨true, undefinedLen⟩ :: st)
    simp only [idle] at this
    rw [this]
    cases h2 : recElems (enc.itemHeader undefinedLen) elems with
    | error x => simp [exBind]
    | ok e2 =>
      simp only [exBind, Writer.writeAll, Writer.write, Writer.writeImpl, true_and, if_true]
      have := writeAll_items rest hwf.2 e2.itemDelimiter st
      simp only [idle] at this
      rw [this]
      cases recItems e2.itemDelimiter rest <;> simp [exBind]
/-- data set level -/
theorem writeAll_elems : ∀ (es : Elems), es.WF → ∀ (enc : Enc) (st : List SeqTok),
    (idle enc st).writeAll es.tokens = exBind (recElems enc es) (fun e' => .ok (idle e' st))
  | .nil, _, enc, st => by simp [Elems.tokens, Writer.writeAll, recElems, exBind]
  | .cons e rest, hwf, enc, st => by
    simp only [Elems.tokens, recElems]
    rw [writeAll_append, writeAll_elem e hwf.1 enc st]
    cases h : recElem enc e with
    | error x => simp [exBind]
    | ok e1 =>
      simp only [exBind]
      rw [writeAll_elems rest hwf.2 e1 st]
      cases recElems e1 rest <;> simp [exBind]
end

/-- **`write_dataset` = the recursive writer** for every well-formed tree of any depth (default strategy) -/
theorem writeDataset_eq_rec (ts : Syntax) (t : Elems) (hwf : t.WF) :
    writeDataset ts .setUndefined t = exBind (recElems (Enc.new ts) t) (fun e => .ok e.out) := by
  unfold writeDataset
  have := writeAll_elems t hwf (Enc.new ts) []
  simp only [idle] at this
  show (match (Writer.mk (Enc.new ts) [] none .setUndefined).writeAll t.tokens with
    | .ok w => Except.ok w.enc.out | .error x => .error x) = _
  rw [this]
  cases recElems (Enc.new ts) t <;> simp [exBind]

end Dicom
