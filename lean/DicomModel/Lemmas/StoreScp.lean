import DicomModel.Model.StoreScp
import DicomModel.Lemmas.Bytes
/-
Helper lemmas for C32: `split`/`join` on a separator, the directory walk, trimming.
-/
namespace Dicom.StoreScp

theorem splitOn_ne_nil (c : Char) (s : Str) : splitOn c s ≠ [] := by
  cases s with
  | nil => simp [splitOn]
  | cons x xs =>
    unfold splitOn
    split
    · simp
    · cases splitOn c xs <;> simp [consHead]

/-- splitting at a separator splits the list of pieces -/
theorem splitOn_append_sep (c : Char) (a b : Str) :
    splitOn c (a ++ c :: b) = splitOn c a ++ splitOn c b := by
  induction a with
  | nil => simp [splitOn]
  | cons x xs ih =>
    by_cases hx : x = c
    · simp [splitOn, hx, ih]
    · simp only [List.cons_append, splitOn, hx, if_false, ih]
      cases h : splitOn c xs with
      | nil => exact absurd h (splitOn_ne_nil c xs)
      | cons p ps => simp [consHead]

theorem splitOn_of_not_mem {c : Char} {s : Str} (h : c ∉ s) : splitOn c s = [s] := by
  induction s with
  | nil => rfl
  | cons x xs ih =>
    have hx : x ≠ c := fun e => h (by simp [e])
    have hxs : c ∉ xs := fun m => h (by simp [m])
    simp [splitOn, hx, ih hxs, consHead]

theorem walk_append (dirs : List Comps) (cur : Comps) (xs ys : List Str) :
    walk dirs cur (xs ++ ys) = (walk dirs cur xs).bind fun d => walk dirs d ys := by
  induction xs generalizing cur with
  | nil => simp [walk]
  | cons x xs ih =>
    simp only [List.cons_append, walk]
    split
    · exact ih cur
    · split
      · exact ih _
      · split
        · exact ih _
        · simp

theorem mem_trimEndBy {p : Char → Bool} {s : Str} {c : Char} (h : c ∈ trimEndBy p s) : c ∈ s := by
  unfold trimEndBy at h
  have h1 : c ∈ s.reverse.dropWhile p := List.mem_reverse.mp h
  exact List.mem_reverse.mp ((List.dropWhile_sublist p).subset h1)

theorem mem_sanitise {s : Str} {c : Char} (h : c ∈ sanitise s) : c ≠ '/' ∧ c ≠ nul := by
  unfold sanitise at h
  obtain ⟨d, _, hd⟩ := List.mem_map.mp h
  by_cases hc : d = '/' ∨ d = nul
  · simp only [hc, if_true] at hd
    subst hd
    exact ⟨by decide, by decide⟩
  · simp only [hc, if_false] at hd
    subst hd
    exact ⟨fun e => hc (Or.inl e), fun e => hc (Or.inr e)⟩

end Dicom.StoreScp
