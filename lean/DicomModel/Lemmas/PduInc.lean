import DicomModel.Lemmas.Pdu
/-
`Ok(None)` never comes out of the body of a PDU: every "not enough bytes" inside a complete body is an
error (`read_pdu_variable(..)?` + `None => ReadUserVariable`, `ensure!` elsewhere).
-/
namespace Dicom.Pdu

theorem Res.bind_ne_inc {α β : Type} {x : Res α} {f : α → Res β} (hx : x ≠ .inc) (hf : ∀ a, f a ≠ .inc) :
    Res.bind x f ≠ .inc := by
  cases x with
  | ok a => exact hf a
  | inc => exact absurd rfl hx
  | err e => simp [Res.bind]

theorem readPduVariable'_ne_inc (bs : Bytes) : readPduVariable' bs ≠ .inc := by
  unfold readPduVariable'
  cases readPduVariable bs <;> simp

theorem readRqVars_ne_inc : ∀ (f : Nat) (bs : Bytes) (acn : Option Str) (pcs : List PcProposed) (uvs : List UserVar),
    readRqVars f bs acn pcs uvs ≠ .inc := by
  intro f
  induction f with
  | zero => intro bs acn pcs uvs; cases bs <;> simp [readRqVars]
  | succ f ih =>
    intro bs acn pcs uvs
    cases bs with
    | nil => simp [readRqVars]
    | cons b bs' =>
      simp only [readRqVars, Res.bind_eq]
      apply Res.bind_ne_inc (readPduVariable'_ne_inc _)
      rintro ⟨it, rest⟩
      cases it <;> simp [ih]

theorem readAcVars_ne_inc : ∀ (f : Nat) (bs : Bytes) (acn : Option Str) (pcs : List PcResult) (uvs : List UserVar),
    readAcVars f bs acn pcs uvs ≠ .inc := by
  intro f
  induction f with
  | zero => intro bs acn pcs uvs; cases bs <;> simp [readAcVars]
  | succ f ih =>
    intro bs acn pcs uvs
    cases bs with
    | nil => simp [readAcVars]
    | cons b bs' =>
      simp only [readAcVars, Res.bind_eq]
      apply Res.bind_ne_inc (readPduVariable'_ne_inc _)
      rintro ⟨it, rest⟩
      cases it <;> simp [ih]

theorem u8P_ne_inc (bs : Bytes) : u8P bs ≠ .inc := by cases bs <;> simp [u8P]
theorem u16P_ne_inc (bs : Bytes) : u16P bs ≠ .inc := by
  match bs with
  | [] => simp [u16P]
  | [_] => simp [u16P]
  | _ :: _ :: _ => simp [u16P]
theorem u32P_ne_inc (bs : Bytes) : u32P bs ≠ .inc := by
  match bs with
  | [] => simp [u32P]
  | [_] => simp [u32P]
  | [_, _] => simp [u32P]
  | [_, _, _] => simp [u32P]
  | _ :: _ :: _ :: _ :: _ => simp [u32P]
theorem takeP_ne_inc (n : Nat) (bs : Bytes) : takeP n bs ≠ .inc := by
  unfold takeP; split <;> simp

theorem readAssocFixed_ne_inc (body : Bytes) : readAssocFixed body ≠ .inc := by
  unfold readAssocFixed
  split
  · simp
  · simp only [Res.bind_eq]
    refine Res.bind_ne_inc (u16P_ne_inc _) fun _ => Res.bind_ne_inc (u16P_ne_inc _) fun _ =>
      Res.bind_ne_inc (takeP_ne_inc _ _) fun _ => Res.bind_ne_inc (takeP_ne_inc _ _) fun _ =>
      Res.bind_ne_inc (takeP_ne_inc _ _) fun _ => by simp

theorem readPdvs_ne_inc : ∀ (f : Nat) (bs : Bytes) (acc : List Pdv), readPdvs f bs acc ≠ .inc := by
  intro f
  induction f with
  | zero => intro bs acc; cases bs <;> simp [readPdvs]
  | succ f ih =>
    intro bs acc
    cases bs with
    | nil => simp [readPdvs]
    | cons b bs' =>
      simp only [readPdvs]
      split
      · simp
      · simp only [Res.bind_eq]
        refine Res.bind_ne_inc (u32P_ne_inc _) fun x => ?_
        split
        · simp
        · refine Res.bind_ne_inc (u8P_ne_inc _) fun _ => Res.bind_ne_inc (u8P_ne_inc _) fun _ => ?_
          split
          · simp
          · exact Res.bind_ne_inc (takeP_ne_inc _ _) fun _ => ih _ _

/-- parsing a complete body never asks for more bytes -/
theorem readBody_ne_inc (t : Nat) (body : Bytes) : readBody t body ≠ .inc := by
  unfold readBody
  split
  · simp only [Res.bind_eq]
    refine Res.bind_ne_inc (readAssocFixed_ne_inc _) fun x => Res.bind_ne_inc (readRqVars_ne_inc _ _ _ _ _) fun y => ?_
    cases y.1 <;> simp
  split
  · simp only [Res.bind_eq]
    refine Res.bind_ne_inc (readAssocFixed_ne_inc _) fun x => Res.bind_ne_inc (readAcVars_ne_inc _ _ _ _ _) fun y => ?_
    cases y.1 <;> simp
  split
  · split
    · simp
    · simp only [Res.bind_eq]
      refine Res.bind_ne_inc (u8P_ne_inc _) fun _ => Res.bind_ne_inc (u8P_ne_inc _) fun x => ?_
      cases RjResult.ofCode x.1 with
      | none => simp
      | some r =>
        refine Res.bind_ne_inc (u8P_ne_inc _) fun _ => Res.bind_ne_inc (u8P_ne_inc _) fun _ => ?_
        split <;> simp
  split
  · simp only [Res.bind_eq]
    exact Res.bind_ne_inc (readPdvs_ne_inc _ _ _) fun _ => by simp
  split
  · split <;> simp
  split
  · split <;> simp
  split
  · split
    · simp
    · simp only [Res.bind_eq]
      refine Res.bind_ne_inc (takeP_ne_inc _ _) fun _ => Res.bind_ne_inc (u8P_ne_inc _) fun _ =>
        Res.bind_ne_inc (u8P_ne_inc _) fun _ => ?_
      split <;> simp
  · simp
end Dicom.Pdu
