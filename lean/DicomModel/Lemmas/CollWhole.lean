import DicomModel.Lemmas.RefLazy
import DicomModel.Lemmas.RefBuild
import DicomModel.Model.Collector
/-
C06: the collector (repaired code) on an annotated lazy run over the tokens of a canonical tree collects
the tree — part 1: the item-length bookkeeping of the lazy reader and encapsulated pixel data.
-/
set_option linter.unusedSimpArgs false
set_option linter.unusedVariables false
namespace Dicom.CW
open Dicom.LE Dicom.LS Dicom.DC Dicom.Ref

/-! ### the length a `LazyItemValue` announces is the length of the item that was opened -/

theorem advanceBody_item_len {x l0 : LState} {len : Nat} (h : x.advanceBody = (some (.ok (.lazyItemValue len)), l0)) :
    ∃ b rest, x.seqDelimiters = ⟨true, len, true, b⟩ :: rest := by
  unfold LState.advanceBody at h
  repeat' (first | split at h | dsimp only at h)
  all_goals first
    | (injection h with h1 h2; injection h1 with h1; injection h1 with h1; injection h1 with h1; subst h1
       exact ⟨_, _, by assumption⟩)
    | (injection h with h1 h2; injection h1 with h1; injection h1 with h1; cases h1; done)
    | (injection h with h1 h2; injection h1 with h1; cases h1; done)
    | (injection h with h1 h2; cases h1; done)

theorem update_none_stack {s s' : LState} (h : s.updateSeqDelimiters = (.ok none, s')) :
    s'.seqDelimiters = s.seqDelimiters := by
  unfold LState.updateSeqDelimiters at h
  repeat' (first | split at h | dsimp only at h)
  all_goals first
    | (injection h with h1 h2; subst h2; rfl)
    | (injection h with h1 h2; injection h1 with h1; cases h1; done)
    | (injection h with h1 h2; cases h1; done)

theorem advance_item_len {l l0 : LState} {len : Nat} (hp : l.peeked = none)
    (h : l.advance = (some (.ok (.lazyItemValue len)), l0)) :
    ∃ b rest, l.seqDelimiters = ⟨true, len, true, b⟩ :: rest := by
  unfold LState.advance at h
  split at h
  · cases h
  · rw [hp] at h
    simp only at h
    split at h
    · split at h
      · injection h with h1 h2; injection h1 with h1; cases h1
      · injection h with h1 h2; injection h1 with h1; injection h1 with h1; cases h1
      · rename_i sx hu
        obtain ⟨b, rest, hst⟩ := advanceBody_item_len h
        exact ⟨b, rest, by rw [← update_none_stack hu]; exact hst⟩
    · exact advanceBody_item_len h

theorem advanceBody_itemStart {x l' : LState} {n : Nat} (h : x.advanceBody = (some (.ok (.tok (.itemStart n))), l')) :
    ∃ px b rest, l'.seqDelimiters = ⟨true, n, px, b⟩ :: rest := by
  unfold LState.advanceBody at h
  repeat' (first | split at h | dsimp only at h)
  all_goals first
    | (injection h with h1 h2; injection h1 with h1; injection h1 with h1; injection h1 with h1; injection h1 with h1
       subst h1; subst h2; exact ⟨_, _, _, rfl⟩)
    | (injection h with h1 h2; injection h1 with h1; injection h1 with h1; injection h1 with h1; cases h1; done)
    | (injection h with h1 h2; injection h1 with h1; injection h1 with h1; cases h1; done)
    | (injection h with h1 h2; injection h1 with h1; cases h1; done)
    | (injection h with h1 h2; cases h1; done)

theorem advance_itemStart {l l' : LState} {n : Nat} (hp : l.peeked = none)
    (h : l.advance = (some (.ok (.tok (.itemStart n))), l')) :
    ∃ px b rest, l'.seqDelimiters = ⟨true, n, px, b⟩ :: rest := by
  unfold LState.advance at h
  split at h
  · cases h
  · rw [hp] at h
    simp only at h
    split at h
    · split at h
      · injection h with h1 h2; injection h1 with h1; cases h1
      · rename_i tok sx hu
        injection h with h1 h2; injection h1 with h1; injection h1 with h1; injection h1 with h1
        subst h1
        exfalso
        unfold LState.updateSeqDelimiters at hu
        repeat' (first | split at hu | dsimp only at hu)
        all_goals first
          | (injection hu with h1 h2; injection h1 with h1; injection h1 with h1; cases h1; done)
          | (injection hu with h1 h2; cases h1; done)
          | (injection hu with h1 h2; injection h1 with h1; cases h1; done)
      · exact advanceBody_itemStart h
    · exact advanceBody_itemStart h

/-- an item of announced length `n` followed by its value: the value step announces `n` -/
theorem item_value_len {l m1 m2 : LState} {n : Nat} {b : Bytes}
    (s1 : LStep l (.itemStart n) m1) (s2 : LStep m1 (.itemValue b) m2) :
    ∃ l0, m1.advance = (some (.ok (.lazyItemValue n)), l0) ∧ b = l0.dec.rest.take n ∧
      m2.dec = after l0.dec n ∧ m2 = { l0 with dec := m2.dec } ∧ l0.dec.ts = l.dec.ts := by
  have ha := s1.tok_inv rfl
  obtain ⟨px, bo, rest, hst⟩ := advance_itemStart s1.1 ha
  obtain ⟨len, l0, hb, h1, h2, h3⟩ := s2.item_inv
  obtain ⟨b', rest', hst'⟩ := advance_item_len s2.1 hb
  rw [hst] at hst'
  injection hst' with e1 _
  injection e1 with _ e2 _ _
  subst e2
  refine ⟨l0, hb, h1, h2, h3, ?_⟩
  have e1 : m2.dec.ts = l0.dec.ts := by rw [h2]; rfl
  rw [← e1, s2.ts, s1.ts]

/-! ### encapsulated pixel data through the collector -/

theorem lstep_adv {l m : LState} {t : Token} (s : LStep l t m) (hs : structural t = true) :
    l.advance = (some (.ok (.tok t)), m) := s.tok_inv hs

theorem norm_fragTokens (be : Bool) (f : Bytes) : (fragTokens f).map (normTok be) = fragTokens f := by
  unfold fragTokens; split <;> simp [normTok]

theorem norm_frags (be : Bool) : ∀ frags : List Bytes,
    (frags.flatMap fragTokens).map (normTok be) = frags.flatMap fragTokens
  | [] => rfl
  | f :: r => by simp [List.flatMap_cons, norm_fragTokens, norm_frags be r]

/-- the fragment items, then the sequence delimiter: `build_encapsulated_data` of the collector -/
theorem coll_frags (t : List Nat) (rest : List Token) (l' : LState) : ∀ (frags : List Bytes) (fr : List Bytes)
    (l : LState) (fuel : Nat), (∀ f ∈ frags, f.length % 2 = 0 ∧ f.length < 4294967295) →
    LRun l (frags.flatMap fragTokens ++ .sequenceEnd :: rest) l' →
    (frags.flatMap fragTokens).length < fuel →
    ∃ m, collBuildEncapsulated fuel l (some t) fr false = .ok (t, fr ++ frags, m) ∧ LRun m rest l'
  | [], fr, l, fuel, _, hr, hf => by
    cases fuel with
    | zero => simp at hf
    | succ k =>
      simp only [List.flatMap_nil, List.nil_append] at hr
      obtain ⟨m, s1, r1⟩ := hr.head
      exact ⟨m, by simp [collBuildEncapsulated, lstep_adv s1 rfl], r1⟩
  | f :: more, fr, l, fuel, hok, hr, hf => by
    have hfo := hok f (by simp)
    by_cases hz : f = []
    · subst hz
      have hft : fragTokens [] = [.itemStart 0, .itemEnd] := by simp [fragTokens]
      simp only [List.flatMap_cons, hft, List.cons_append, List.nil_append, List.length_cons] at hr hf
      obtain ⟨m1, s1, r1⟩ := hr.head
      obtain ⟨m2, s2, r2⟩ := r1.head
      obtain ⟨k, rfl⟩ : ∃ k, fuel = k + 2 := ⟨fuel - 2, by omega⟩
      obtain ⟨m, h1, h2⟩ := coll_frags t rest l' more (fr ++ [[]]) m2 k (fun g hg => hok g (by simp [hg])) r2 (by omega)
      refine ⟨m, ?_, h2⟩
      simp only [collBuildEncapsulated, lstep_adv s1 rfl, lstep_adv s2 rfl, Bool.false_eq_true, if_false]
      rw [h1]; simp [List.append_assoc]
    · have he : f.isEmpty = false := by cases f <;> simp_all
      have hm : f.length % 4294967296 = f.length := Nat.mod_eq_of_lt (by omega)
      have hft : fragTokens f = [.itemStart f.length, .itemValue f, .itemEnd] := by simp [fragTokens, he, hm]
      simp only [List.flatMap_cons, hft, List.cons_append, List.nil_append, List.length_cons] at hr hf
      obtain ⟨m1, s1, r1⟩ := hr.head
      obtain ⟨m2, s2, r2⟩ := r1.head
      obtain ⟨m3, s3, r3⟩ := r2.head
      obtain ⟨l0, ha, hb, hd, hl, hts0⟩ := item_value_len s1 s2
      obtain ⟨k, rfl⟩ : ∃ k, fuel = k + 3 := ⟨fuel - 3, by omega⟩
      obtain ⟨m, h1, h2⟩ := coll_frags t rest l' more (fr ++ [f]) m3 k (fun g hg => hok g (by simp [hg])) r3 (by omega)
      refine ⟨m, ?_, h2⟩
      have hm2 : ({ l0 with dec := after l0.dec f.length } : LState) = m2 := by rw [hl, hd]
      simp only [collBuildEncapsulated, lstep_adv s1 rfl, ha, Dec.readToVec, ← hb]
      have : ({ l0 with dec := { l0.dec with rest := l0.dec.rest.drop f.length, pos := l0.dec.pos + f.length } } : LState) = m2 := hm2
      rw [this]
      simp only [lstep_adv s3 rfl, if_true]
      rw [h1]; simp [List.append_assoc]

/-- normalised tokens of the offset table item -/
theorem norm_botTokens (be : Bool) (bot : List Nat) (hb : 4 * bot.length < 4294967295) :
    (botTokens bot).map (normTok be) =
      if bot = [] then [.itemStart 0, .itemEnd]
      else [.itemStart (bot.length * 4), .itemValue (bot.flatMap (enc32 be)), .itemEnd] := by
  have hm : bot.length * 4 % 4294967296 = bot.length * 4 := Nat.mod_eq_of_lt (by omega)
  unfold botTokens
  rw [hm]
  cases bot with
  | nil => simp [normTok]
  | cons a r => simp [normTok]

/-- the whole pixel data element after `PixelSequenceStart` -/
theorem coll_pix {bot : List Nat} {frags : List Bytes} (ok : PixOk bot frags) (be : Bool) (rest : List Token)
    (l l' : LState) (hbe : l.dec.ts.bigEndian = be) (fuel : Nat)
    (hr : LRun l ((botTokens bot).map (normTok be) ++ (frags.flatMap fragTokens ++ .sequenceEnd :: rest)) l')
    (hf : (botTokens bot).length + (frags.flatMap fragTokens).length < fuel) :
    ∃ m, collBuildEncapsulated fuel l none [] false = .ok (bot, frags, m) ∧ LRun m rest l' := by
  rw [norm_botTokens be bot ok.botLen] at hr
  by_cases hz : bot = []
  · subst hz
    have hbt : (botTokens []).length = 2 := by simp [botTokens]
    simp only [if_true, List.cons_append, List.nil_append] at hr
    obtain ⟨m1, s1, r1⟩ := hr.head
    obtain ⟨m2, s2, r2⟩ := r1.head
    obtain ⟨k, rfl⟩ : ∃ k, fuel = k + 2 := ⟨fuel - 2, by omega⟩
    obtain ⟨m, h1, h2⟩ := coll_frags [] rest l' frags [] m2 k ok.frags r2 (by omega)
    refine ⟨m, ?_, h2⟩
    simp only [collBuildEncapsulated, lstep_adv s1 rfl, lstep_adv s2 rfl]
    rw [h1]; simp
  · have hbt : (botTokens bot).length = 3 := by
      have hm : bot.length * 4 % 4294967296 = bot.length * 4 := Nat.mod_eq_of_lt (by have := ok.botLen; omega)
      have hnz : bot.length * 4 ≠ 0 := by
        cases bot with
        | nil => exact absurd rfl hz
        | cons a r => simp
      simp [botTokens, hm, hnz]
    simp only [hz, if_false, List.cons_append, List.nil_append] at hr
    obtain ⟨m1, s1, r1⟩ := hr.head
    obtain ⟨m2, s2, r2⟩ := r1.head
    obtain ⟨m3, s3, r3⟩ := r2.head
    obtain ⟨l0, ha, hb, hd, hl, hts0⟩ := item_value_len s1 s2
    obtain ⟨k, rfl⟩ : ∃ k, fuel = k + 3 := ⟨fuel - 3, by omega⟩
    obtain ⟨m, h1, h2⟩ := coll_frags bot rest l' frags [] m3 k ok.frags r3 (by omega)
    refine ⟨m, ?_, h2⟩
    -- the table bytes are the next bytes of the source: reading them as 32-bit numbers gives the table
    have hlen : (bot.flatMap (enc32 be)).length = bot.length * 4 := flatMap_len _ 4 (by simp) bot
    have hsplit : l0.dec.rest = bot.flatMap (enc32 be) ++ l0.dec.rest.drop (bot.length * 4) := by
      conv => lhs; rw [← List.take_append_drop (bot.length * 4) l0.dec.rest]
      rw [← hb]
    have hts : l0.dec.ts.bigEndian = be := by rw [hts0]; exact hbe
    have hrd : rdMany (rd32 l0.dec.ts.bigEndian) (bot.length * 4 / 4) l0.dec.rest =
        some (bot, l0.dec.rest.drop (bot.length * 4)) := by
      rw [hts, Nat.mul_div_cancel _ (by decide : 0 < 4)]
      have := rdMany_flatMap (rd32 be) (enc32 be) id (· < 4294967296) (fun a r ha => rd32_enc32 _ a ha r)
        (l0.dec.rest.drop (bot.length * 4)) bot ok.bot
      rw [List.map_id, ← hsplit] at this
      exact this
    have hm2 : ({ l0 with dec := after l0.dec (bot.length * 4) } : LState) = m2 := by rw [hl, hd]
    have hmod : bot.length * 4 % 4 = 0 := Nat.mul_mod_left _ _
    simp only [collBuildEncapsulated, lstep_adv s1 rfl, ha, Dec.readU32ToVec, hrd, hmod, List.drop_zero]
    have : ({ l0 with dec := { l0.dec with rest := l0.dec.rest.drop (bot.length * 4), pos := l0.dec.pos + bot.length * 4 } } : LState) = m2 := hm2
    rw [this]
    simp only [lstep_adv s3 rfl, if_true]
    rw [h1]; simp

end Dicom.CW
