import DicomModel.Model.Header
import DicomModel.Lemmas.Bytes
/-
Lemmas about the header model shared by C03 / C04 / C01 (and importable by C02, C07, C08 …):
tag codec round trip, VR code round trip, header encode/decode round trip in "append rest" form.
-/
set_option linter.unusedSimpArgs false
namespace Dicom

theorem VR.toBytes?_eq (v : VR) : v.toBytes? = some v.toBytes := by cases v <;> rfl

theorem VR.fromBinary_toBytes (v : VR) : VR.fromBinary v.toBytes.1 v.toBytes.2 = some v := by
  cases v <;> rfl

theorem VR.mem_all (v : VR) : v ∈ VR.all := by cases v <;> decide

theorem VR.toBytes_lt (v : VR) : v.toBytes.1 < 256 ∧ v.toBytes.2 < 256 := by cases v <;> decide

@[simp] theorem encodeTag_length (be : Bool) (t : Tag) : (encodeTag be t).length = 4 := by
  simp [encodeTag]

theorem decodeTag_encodeTag (be : Bool) (t : Tag) (ht : t.Valid) (r : Bytes) :
    decodeTag be (encodeTag be t ++ r) = some (t, r) := by
  obtain ⟨hg, he⟩ := ht
  simp [decodeTag, encodeTag, List.append_assoc, rd16_enc16 _ _ hg, rd16_enc16 _ _ he]

theorem decodeTag_short {be : Bool} {bs : Bytes} (h : bs.length < 4) : decodeTag be bs = none := by
  match bs, h with
  | [], _ => cases be <;> rfl
  | [_], _ => cases be <;> rfl
  | [_, _], _ => cases be <;> rfl
  | [_, _, _], _ => cases be <;> rfl
  | _ :: _ :: _ :: _ :: _, h => simp at h; omega

@[simp] theorem encodeItemHeader_length (be : Bool) (n : Nat) : (encodeItemHeader be n).length = 8 := by
  simp [encodeItemHeader]
@[simp] theorem encodeItemDelimiter_length (be : Bool) : (encodeItemDelimiter be).length = 8 := by
  simp [encodeItemDelimiter]
@[simp] theorem encodeSeqDelimiter_length (be : Bool) : (encodeSeqDelimiter be).length = 8 := by
  simp [encodeSeqDelimiter]

theorem enc32_zero (be : Bool) : enc32 be 0 = [0, 0, 0, 0] := by cases be <;> rfl

theorem encodeItemDelimiter_eq (be : Bool) : encodeItemDelimiter be = encodeTag be Tag.itemDelim ++ enc32 be 0 := by
  simp [encodeItemDelimiter, enc32_zero]
theorem encodeSeqDelimiter_eq (be : Bool) : encodeSeqDelimiter be = encodeTag be Tag.seqDelim ++ enc32 be 0 := by
  simp [encodeSeqDelimiter, enc32_zero]

theorem Tag.item_valid : Tag.item.Valid := by decide
theorem Tag.itemDelim_valid : Tag.itemDelim.Valid := by decide
theorem Tag.seqDelim_valid : Tag.seqDelim.Valid := by decide

/-- item header round trip -/
theorem decodeItemHeader_item (be : Bool) (len : Nat) (hl : len < 4294967296) (r : Bytes) :
    decodeItemHeader be (encodeItemHeader be len ++ r) = .ok (.item len, r) := by
  simp [decodeItemHeader, encodeItemHeader, List.append_assoc, decodeTag_encodeTag _ _ Tag.item_valid,
    rd32_enc32 _ _ hl, ItemHeader.new]

theorem decodeItemHeader_itemDelim (be : Bool) (r : Bytes) :
    decodeItemHeader be (encodeItemDelimiter be ++ r) = .ok (.itemDelim, r) := by
  rw [encodeItemDelimiter_eq]
  simp [decodeItemHeader, List.append_assoc, decodeTag_encodeTag _ _ Tag.itemDelim_valid,
    rd32_enc32 _ _ (by decide : 0 < 4294967296), ItemHeader.new,
    (by decide : Tag.itemDelim ≠ Tag.item), (by decide : Tag.seqDelim ≠ Tag.item),
    (by decide : Tag.seqDelim ≠ Tag.itemDelim)]

theorem decodeItemHeader_seqDelim (be : Bool) (r : Bytes) :
    decodeItemHeader be (encodeSeqDelimiter be ++ r) = .ok (.seqDelim, r) := by
  rw [encodeSeqDelimiter_eq]
  simp [decodeItemHeader, List.append_assoc, decodeTag_encodeTag _ _ Tag.seqDelim_valid,
    rd32_enc32 _ _ (by decide : 0 < 4294967296), ItemHeader.new,
    (by decide : Tag.itemDelim ≠ Tag.item), (by decide : Tag.seqDelim ≠ Tag.item),
    (by decide : Tag.seqDelim ≠ Tag.itemDelim)]

/-- explicit VR header round trip over any short list (the same list on both sides) -/
theorem decodeExplicitWith_encode (short : List VR) (be : Bool) (h : ElemHeader)
    (ht : h.tag.Valid) (hg : h.tag.group ≠ 0xFFFE) (hl : h.len < 4294967296) (r : Bytes)
    (bs : Bytes) (n : Nat) (henc : encodeExplicitWith short be h = .ok (bs, n)) :
    decodeExplicitWith short be (bs ++ r) = some (h, n, r) ∧ n = bs.length := by
  unfold encodeExplicitWith at henc
  by_cases hs : short.contains h.vr = true
  · have hm : h.vr ∈ short := by simpa using hs
    simp only [hs, if_true] at henc
    by_cases hlen : h.len > 0xFFFF
    · simp [hlen] at henc
    · simp only [hlen, if_false] at henc
      injection henc with henc
      injection henc with hb hn
      subst hb; subst hn
      have h16 : h.len < 65536 := by omega
      have hfb := VR.fromBinary_toBytes h.vr
      simp [decodeExplicitWith, List.append_assoc, decodeTag_encodeTag _ _ ht, hg, hfb, hm,
        rd16_enc16 _ _ h16]
  · have hm : h.vr ∉ short := by simpa using hs
    simp only [hs] at henc
    injection henc with henc
    injection henc with hb hn
    subst hb; subst hn
    have hfb := VR.fromBinary_toBytes h.vr
    simp [decodeExplicitWith, List.append_assoc, decodeTag_encodeTag _ _ ht, hg, hfb, hm,
      rd32_enc32 _ _ hl]

end Dicom
