import DicomModel.Model.PData
import DicomModel.Lemmas.Bytes
/-
Lemmas for C26: header set-up, the wire form `pdu`, the invariant of the synchronous writer,
the independent parser on emitted streams.
-/
namespace Dicom.PData
open Dicom.Gen.Ul

theorem pduHeaderSize_eq : pduHeaderSize = 6 := rfl
theorem pduPdvHeaderSize_eq : pduPdvHeaderSize = 12 := rfl
theorem maximumPduSize_eq : maximumPduSize = 4294967288 := rfl
theorem minimumPduSize_eq : minimumPduSize = 1018 := rfl

/-- wire form of one P-DATA-TF PDU carrying one presentation data value -/
def pdu (ctx : Nat) (last : Bool) (data : Bytes) : Bytes :=
  [4, 0] ++ be32 (data.length + 6) ++ be32 (data.length + 2) ++ [ctx, if last then 2 else 0] ++ data

/-- the 12 header bytes kept in the writer's buffer: type, reserved, stale lengths, context id,
stale control byte -/
def Hdr (ctx : Nat) (h : Bytes) : Prop :=
  ∃ a b c d e f g i x, h = [4, 0, a, b, c, d, e, f, g, i, ctx, x]

theorem Hdr.length {ctx : Nat} {h : Bytes} (hh : Hdr ctx h) : h.length = 12 := by
  obtain ⟨a, b, c, d, e, f, g, i, x, rfl⟩ := hh; rfl

theorem hdr_init (ctx : Nat) : Hdr ctx (initBuf ctx) := ⟨255, 255, 255, 255, 255, 255, 255, 255, 255, rfl⟩

theorem pdu_length (ctx : Nat) (last : Bool) (data : Bytes) : (pdu ctx last data).length = data.length + 12 := by
  simp [pdu]; omega

theorem hdr_pdu_take (ctx : Nat) (last : Bool) (data : Bytes) : Hdr ctx ((pdu ctx last data).take 12) := by
  simp only [pdu, be32]
  exact ⟨_, _, _, _, _, _, _, _, _, by simp; exact ⟨rfl, rfl, rfl, rfl, rfl, rfl, rfl, rfl, rfl⟩⟩

theorem setupHeader_eq {ctx : Nat} {h : Bytes} (hh : Hdr ctx h) (t : Bytes) (last : Bool)
    (ht : t.length + 6 < u32) : setupHeader (h ++ t) last = some (pdu ctx last t) := by
  obtain ⟨a, b, c, d, e, f, g, i, x, rfl⟩ := hh
  simp only [u32] at ht
  have h1 : (t.length % 4294967296 + 4 + 2) % 4294967296 = t.length + 6 := by omega
  have h2 : (t.length + 2) % 4294967296 = t.length + 2 := by omega
  simp [setupHeader, pduPdvHeaderSize_eq, pdu, u32, h1, h2]

/-! ### the synchronous writer -/

theorem totalLen_eq {max : Nat} (hM : max ≤ maximumPduSize) : totalLen max = max + 6 := by
  simp only [totalLen, pduHeaderSize_eq, u32, maximumPduSize_eq] at *; omega

theorem write_fit {max ctx : Nat} {h tail out chunk : Bytes} (hh : Hdr ctx h) (hm : 6 < max)
    (hM : max ≤ maximumPduSize) (hfit : tail.length + chunk.length ≤ max - 6) :
    write max ⟨h ++ tail, out⟩ chunk = some (⟨h ++ (tail ++ chunk), out⟩, chunk.length) := by
  have hl := hh.length
  have : (h ++ tail).length + chunk.length ≤ totalLen max := by
    rw [totalLen_eq hM]; simp [hl]; omega
  simp only [write, this, if_true, List.append_assoc]

theorem write_full {max ctx : Nat} {h tail out chunk : Bytes} (hh : Hdr ctx h) (hm : 6 < max)
    (hM : max ≤ maximumPduSize) (hlen : tail.length < max - 6)
    (hnf : max - 6 < tail.length + chunk.length) :
    write max ⟨h ++ tail, out⟩ chunk =
      some (⟨(pdu ctx false (tail ++ chunk.take (max - 6 - tail.length))).take 12,
             out ++ pdu ctx false (tail ++ chunk.take (max - 6 - tail.length))⟩,
            max - 6 - tail.length) := by
  have hl := hh.length
  have h1 : ¬ (h ++ tail).length + chunk.length ≤ totalLen max := by
    rw [totalLen_eq hM]; simp [hl]; omega
  have h2 : ¬ totalLen max < (h ++ tail).length := by
    rw [totalLen_eq hM]; simp [hl]; omega
  have h3 : totalLen max - (h ++ tail).length = max - 6 - tail.length := by
    rw [totalLen_eq hM]; simp [hl]; omega
  have h4 : (tail ++ chunk.take (max - 6 - tail.length)).length + 6 < u32 := by
    simp only [u32, maximumPduSize_eq, List.length_append, List.length_take] at *; omega
  have h5 : max - 6 - tail.length > 0 := by omega
  simp only [write, h1, h2, if_false, h3, dispatch]
  rw [List.append_assoc h tail, setupHeader_eq hh _ _ h4]
  simp [pduPdvHeaderSize_eq, refill, h5]

/-- the repaired case: the buffer already holds a full PDU when more data arrives — the PDU is
sent and the next one is started with the new data (at least one byte is taken) -/
theorem write_stall {max ctx : Nat} {h tail out chunk : Bytes} (hh : Hdr ctx h) (hm : 6 < max)
    (hM : max ≤ maximumPduSize) (hlen : tail.length = max - 6) (hc : chunk ≠ []) :
    write max ⟨h ++ tail, out⟩ chunk =
      some (⟨(pdu ctx false tail).take 12 ++ chunk.take (min chunk.length (max - 6)),
             out ++ pdu ctx false tail⟩, min chunk.length (max - 6)) := by
  have hl := hh.length
  have hpos : 0 < chunk.length := List.length_pos_iff.mpr hc
  have h1 : ¬ (h ++ tail).length + chunk.length ≤ totalLen max := by
    rw [totalLen_eq hM]; simp [hl]; omega
  have h2 : ¬ totalLen max < (h ++ tail).length := by
    rw [totalLen_eq hM]; simp [hl]; omega
  have h3 : totalLen max - (h ++ tail).length = 0 := by
    rw [totalLen_eq hM]; simp [hl]; omega
  have h4 : tail.length + 6 < u32 := by
    simp only [u32, maximumPduSize_eq] at *; omega
  have h6 : totalLen max - 12 = max - 6 := by rw [totalLen_eq hM]; omega
  simp only [write, h1, h2, if_false, h3, dispatch, List.take_zero, List.append_nil]
  rw [setupHeader_eq hh _ _ h4]
  simp [pduPdvHeaderSize_eq, refill, pdu_length, h6]

theorem flatten_length_of_all {d : Nat} {blocks : List Bytes} (hb : ∀ b ∈ blocks, List.length b = d) :
    blocks.flatten.length = blocks.length * d := by
  induction blocks with
  | nil => simp
  | cons b bs ih =>
    have h1 := hb b (by simp)
    have h2 := ih (fun x hx => hb x (by simp [hx]))
    simp [h1, h2, Nat.add_mul]; omega

/-- `write_all(chunk)` from any reachable state: succeeds, sends zero or more full PDUs, and the
buffer ends with the bytes not yet sent. -/
theorem writeAll_spec {max ctx : Nat} (hm : 6 < max) (hM : max ≤ maximumPduSize) :
    ∀ (n : Nat) (chunk : Bytes), chunk.length = n → ∀ (h tail out : Bytes), Hdr ctx h →
      tail.length ≤ max - 6 →
      ∃ (h' tail' : Bytes) (nb : List Bytes), Hdr ctx h' ∧ tail'.length ≤ max - 6 ∧
        (∀ b ∈ nb, List.length b = max - 6) ∧
        writeAll max ⟨h ++ tail, out⟩ chunk
          = (⟨h' ++ tail', out ++ (nb.map (pdu ctx false)).flatten⟩, .ok) ∧
        nb.flatten ++ tail' = tail ++ chunk := by
  intro n
  induction n using Nat.strongRecOn with
  | ind n ih =>
    intro chunk hn h tail out hh hlen
    by_cases hc : chunk = []
    · subst hc
      refine ⟨h, tail, [], hh, hlen, by simp, ?_, by simp⟩
      rw [writeAll]; simp
    · have hpos : 0 < chunk.length := List.length_pos_iff.mpr hc
      by_cases hfit : tail.length + chunk.length ≤ max - 6
      · refine ⟨h, tail ++ chunk, [], hh, by simpa using hfit, by simp, ?_, by simp⟩
        obtain ⟨m, hm'⟩ : ∃ m, chunk.length = m + 1 := ⟨chunk.length - 1, by omega⟩
        rw [writeAll]
        simp only [hc, dite_false, write_fit hh hm hM hfit, hm']
        have : chunk.drop (m + 1) = [] := by
          apply List.drop_eq_nil_of_le; omega
        rw [this, writeAll]; simp
      · have hnf : max - 6 < tail.length + chunk.length := by omega
        by_cases hlt : tail.length < max - 6
        · obtain ⟨m, hm'⟩ : ∃ m, max - 6 - tail.length = m + 1 :=
            ⟨max - 6 - tail.length - 1, by omega⟩
          have hdl : (chunk.drop (m + 1)).length < n := by
            simp only [List.length_drop]; omega
          have hblk : (tail ++ chunk.take (m + 1)).length = max - 6 := by
            simp only [List.length_append, List.length_take]; omega
          obtain ⟨h', tail', nb, hh', hl', hnb, hw, hcat⟩ :=
            ih _ hdl (chunk.drop (m + 1)) rfl
              ((pdu ctx false (tail ++ chunk.take (m + 1))).take 12) []
              (out ++ pdu ctx false (tail ++ chunk.take (m + 1))) (hdr_pdu_take ..) (by simp)
          refine ⟨h', tail', (tail ++ chunk.take (m + 1)) :: nb, hh', hl', ?_, ?_, ?_⟩
          · intro b hb
            rcases List.mem_cons.mp hb with rfl | hb
            · exact hblk
            · exact hnb b hb
          · rw [writeAll]
            simp only [hc, dite_false, write_full hh hm hM hlt hnf, hm']
            simp only [List.append_nil] at hw
            rw [hw]; simp [List.append_assoc]
          · simp only [List.flatten_cons, List.append_assoc, hcat, List.nil_append,
              List.take_append_drop]
        · have heq : tail.length = max - 6 := by omega
          obtain ⟨m, hm'⟩ : ∃ m, min chunk.length (max - 6) = m + 1 :=
            ⟨min chunk.length (max - 6) - 1, by omega⟩
          have hdl : (chunk.drop (m + 1)).length < n := by
            simp only [List.length_drop]; omega
          have htk : (chunk.take (m + 1)).length ≤ max - 6 := by
            simp only [List.length_take]; omega
          obtain ⟨h', tail', nb, hh', hl', hnb, hw, hcat⟩ :=
            ih _ hdl (chunk.drop (m + 1)) rfl ((pdu ctx false tail).take 12) (chunk.take (m + 1))
              (out ++ pdu ctx false tail) (hdr_pdu_take ..) htk
          refine ⟨h', tail', tail :: nb, hh', hl', ?_, ?_, ?_⟩
          · intro b hb
            rcases List.mem_cons.mp hb with rfl | hb
            · exact heq
            · exact hnb b hb
          · rw [writeAll]
            simp only [hc, dite_false, write_stall hh hm hM heq hc, hm']
            rw [hw]; simp [List.append_assoc]
          · simp only [List.flatten_cons, List.append_assoc, hcat, List.take_append_drop]

/-- one `write_all` per chunk, any chunking -/
theorem writeChunks_spec {max ctx : Nat} (hm : 6 < max) (hM : max ≤ maximumPduSize) :
    ∀ (chunks : List Bytes) (h tail : Bytes) (blocks : List Bytes), Hdr ctx h →
      tail.length ≤ max - 6 → (∀ b ∈ blocks, List.length b = max - 6) →
      ∃ (h' tail' : Bytes) (blocks' : List Bytes), Hdr ctx h' ∧ tail'.length ≤ max - 6 ∧
        (∀ b ∈ blocks', List.length b = max - 6) ∧
        writeChunks max ⟨h ++ tail, (blocks.map (pdu ctx false)).flatten⟩ chunks
          = (⟨h' ++ tail', (blocks'.map (pdu ctx false)).flatten⟩, .ok) ∧
        blocks'.flatten ++ tail' = blocks.flatten ++ tail ++ chunks.flatten := by
  intro chunks
  induction chunks with
  | nil =>
    intro h tail blocks hh hl hb
    exact ⟨h, tail, blocks, hh, hl, hb, by simp [writeChunks], by simp⟩
  | cons c cs ih =>
    intro h tail blocks hh hl hb
    obtain ⟨h1, tail1, nb, hh1, hl1, hnb, hw1, hcat1⟩ :=
      writeAll_spec (ctx := ctx) hm hM c.length c rfl h tail
        ((blocks.map (pdu ctx false)).flatten) hh hl
    have hb1 : ∀ b ∈ blocks ++ nb, List.length b = max - 6 := by
      intro b hb'
      rcases List.mem_append.mp hb' with h2 | h2
      · exact hb b h2
      · exact hnb b h2
    obtain ⟨h', tail', blocks', hh', hl', hb', hw, hcat⟩ := ih h1 tail1 (blocks ++ nb) hh1 hl1 hb1
    refine ⟨h', tail', blocks', hh', hl', hb', ?_, ?_⟩
    · simp only [writeChunks, hw1]
      simp only [List.map_append, List.flatten_append] at hw
      exact hw
    · rw [hcat]
      simp only [List.flatten_append, List.flatten_cons, List.append_assoc]
      rw [← List.append_assoc nb.flatten, hcat1]
      simp [List.append_assoc]

theorem finishImpl_eq {ctx : Nat} {h : Bytes} (hh : Hdr ctx h) (tail out : Bytes)
    (ht : tail.length + 6 < u32) :
    finishImpl ⟨h ++ tail, out⟩ = some ⟨[], out ++ pdu ctx true tail⟩ := by
  have hl := hh.length
  have : (h ++ tail).isEmpty = false := by
    cases h with
    | nil => simp at hl
    | cons x xs => rfl
  simp [finishImpl, this, setupHeader_eq hh tail true ht]

/-- Closed form of a whole synchronous session, for every chunking: full non-last PDUs of
`max - 6` data bytes each, then the last PDU with what remains. -/
theorem runSync_form {max ctx : Nat} (hm : 6 < max) (hM : max ≤ maximumPduSize)
    (chunks : List Bytes) :
    ∃ (blocks : List Bytes) (tail : Bytes), (∀ b ∈ blocks, List.length b = max - 6) ∧
      tail.length ≤ max - 6 ∧ blocks.flatten ++ tail = chunks.flatten ∧
      runSync max ctx chunks = ((blocks.map (pdu ctx false)).flatten ++ pdu ctx true tail, .ok) := by
  obtain ⟨h', tail', blocks', hh', hl', hb', hw, hcat⟩ :=
    writeChunks_spec (ctx := ctx) hm hM chunks (initBuf ctx) [] [] (hdr_init ctx) (by simp) (by simp)
  refine ⟨blocks', tail', hb', hl', by simpa using hcat, ?_⟩
  have ht : tail'.length + 6 < u32 := by
    simp only [u32, maximumPduSize_eq] at *; omega
  simp only [List.append_nil, List.map_nil, List.flatten_nil] at hw
  simp only [runSync, hw, finishImpl_eq hh' tail' _ ht]

/-! ### the independent parser on emitted streams -/

theorem be_val (n : Nat) (hn : n < u32) :
    16777216 * (n / 16777216 % 256) + 65536 * (n / 65536 % 256) + 256 * (n / 256 % 256) + n % 256 = n := by
  simp only [u32] at hn; omega

theorem parseFrag_pdu (ctx : Nat) (last : Bool) (data rest : Bytes) (hd : data.length + 6 < u32) :
    parseFrag (pdu ctx last data ++ rest)
      = some (⟨data.length + 6, ctx, if last then 2 else 0, data⟩, data.length + 12) := by
  have h1 := be_val (data.length + 6) hd
  have h2 := be_val (data.length + 2) (by simp only [u32] at *; omega)
  simp only [pdu, be32, List.cons_append, List.nil_append, parseFrag, h1, h2]
  simp

theorem parseFrags_nil : parseFrags [] = some [] := by
  rw [parseFrags]; simp

theorem parseFrags_pdu (ctx : Nat) (last : Bool) (data rest : Bytes) (hd : data.length + 6 < u32) :
    parseFrags (pdu ctx last data ++ rest)
      = (parseFrags rest).map (⟨data.length + 6, ctx, if last then 2 else 0, data⟩ :: ·) := by
  rw [parseFrags]
  have hne : (pdu ctx last data ++ rest).isEmpty = false := by simp [pdu]
  have hdrop : (pdu ctx last data ++ rest).drop (data.length + 12 - 1 + 1) = rest := by
    have : data.length + 12 - 1 + 1 = (pdu ctx last data).length := by rw [pdu_length]; omega
    rw [this, List.drop_left]
  simp only [hne, parseFrag_pdu ctx last data rest hd, hdrop]
  cases parseFrags rest <;> simp

/-- fragment record of a full non-last block / of the last block -/
def fragOf (ctx : Nat) (last : Bool) (data : Bytes) : Frag :=
  ⟨data.length + 6, ctx, if last then 2 else 0, data⟩

theorem parseFrags_stream (ctx : Nat) (blocks : List Bytes) (tail : Bytes)
    (hb : ∀ b ∈ blocks, List.length b + 6 < u32) (ht : tail.length + 6 < u32) :
    parseFrags ((blocks.map (pdu ctx false)).flatten ++ pdu ctx true tail)
      = some (blocks.map (fragOf ctx false) ++ [fragOf ctx true tail]) := by
  induction blocks with
  | nil =>
    have := parseFrags_pdu ctx true tail [] ht
    simp only [List.append_nil] at this
    simp [this, parseFrags_nil, fragOf]
  | cons b bs ih =>
    have h1 := hb b (by simp)
    have h2 := ih (fun x hx => hb x (by simp [hx]))
    simp only [List.map_cons, List.flatten_cons, List.append_assoc]
    rw [parseFrags_pdu ctx false b _ h1, h2]
    simp [fragOf]

theorem specOk_stream (max ctx : Nat) (blocks : List Bytes) (tail : Bytes)
    (hb : ∀ b ∈ blocks, List.length b + 6 ≤ max) (ht : tail.length + 6 ≤ max) :
    specOk max ctx (blocks.flatten ++ tail) (blocks.map (fragOf ctx false) ++ [fragOf ctx true tail])
      = true := by
  have h1 : (blocks.map (fragOf ctx false) ++ [fragOf ctx true tail]).isEmpty = false := by
    cases blocks <;> simp
  have h2 : (blocks.map (fragOf ctx false) ++ [fragOf ctx true tail]).all
      (fun f => decide (f.pduLen ≤ max) && f.ctx == ctx) = true := by
    simp only [List.all_append, List.all_map, Bool.and_eq_true, List.all_eq_true]
    refine ⟨fun b hb' => by simp [fragOf, hb b hb'], by simp [fragOf, ht]⟩
  have h3 : (blocks.map (fragOf ctx false) ++ [fragOf ctx true tail]).dropLast.all
      (fun f => f.ctrl == 0) = true := by
    rw [List.dropLast_concat]
    simp [fragOf]
  have h4 : ((blocks.map (fragOf ctx false) ++ [fragOf ctx true tail]).getLast?.map (·.ctrl))
      == some 2 := by
    simp [fragOf]
  have h5 : ((blocks.map (fragOf ctx false) ++ [fragOf ctx true tail]).flatMap (·.data)
      == blocks.flatten ++ tail) = true := by
    have : ∀ bl : List Bytes, (bl.map (fragOf ctx false)).flatMap (·.data) = bl.flatten := by
      intro bl
      induction bl with
      | nil => rfl
      | cons b bs ih => simp [fragOf, List.flatMap_cons] at *; exact ih
    have := this blocks
    simp [List.flatMap_append, this, fragOf]
  simp only [specOk, h1, h2, h3, h4, h5, Bool.not_false, Bool.and_self]
