import DicomModel.Model.Util
import DicomModel.Model.Reader
import DicomModel.Model.LazyReader
import DicomModel.Model.Collector
import Driver.Loop
import Driver.Tree
open Dicom Driver

/-! Driver for C06 (line format: see harness/src/bin/c06.rs).
Oracle first (the statement, on the implementation's outputs):
  lazy tokens = eager tokens (an offset table compares by its bytes); collector meta = whole-file meta;
  portions concatenated = whole object; to-end = whole object; fragments one by one = the object's offset
  table and fragments; read_until / read_to = the top-level elements below / up to the stop tag.
Then the models (eager reader, lazy reader, collector, build_object with stop tags) against each output. -/

def tsOf3 (s : String) : Option Syntax :=
  if s == "0" then some .implicitLE else if s == "1" then some .explicitLE
  else if s == "2" then some .explicitBE else none

def parseDict (s : String) : Option (List (Tag × Option VR)) :=
  if s == "-" then some [] else
  allSome ((s.splitOn ",").map fun kv => match kv.splitOn "=" with
    | [k, v] => match parseTag8 k with
      | some t => if v == "none" then some (t, none) else (VR.ofName? v).map fun vr => (t, some vr)
      | none => none
    | _ => none)

def dictFn (d : List (Tag × Option VR)) : Tag → Option VR := fun t => (d.lookup t).getD none

/-- erase the `Display` text of floats -/
def valNoTxt : PValue → PValue
  | .f32 c => .f32 (c.map fun p => (p.1, []))
  | .f64 c => .f64 (c.map fun p => (p.1, []))
  | v => v

mutual
/-- erase float texts and the recorded item lengths (object equality of dicom-rs ignores `len`) -/
def elemNorm : Elem → Elem
  | .prim t vr l v => .prim t vr l (valNoTxt v)
  | .seq t l its => .seq t l (itemsNorm its)
  | e => e
def itemsNorm : Items → Items
  | .nil => .nil
  | .cons _ es r => .cons undefinedLen (elemsNorm es) (itemsNorm r)
def elemsNorm : Elems → Elems
  | .nil => .nil
  | .cons e r => .cons (elemNorm e) (elemsNorm r)
end

def toL : Elems → List Elem
  | .nil => []
  | .cons e r => e :: toL r

/-- equality of element lists (as trees, after normalisation) -/
def sameElems (a b : List Elem) : Bool :=
  (elemsNorm (elemsOfList a)).tokens == (elemsNorm (elemsOfList b)).tokens

/-- a protocol token -/
def parseTok (s : String) : Option Token :=
  if s == "ps" then some .pixelSequenceStart else if s == "se" then some .sequenceEnd
  else if s == "ie" then some .itemEnd
  else match s.splitOn ":" with
  | ["eh", t, vr, l] => match parseTag8 t, VR.ofName? vr, l.toNat? with
    | some t, some v, some l => some (.elementHeader ⟨t, v, l⟩)
    | _, _, _ => none
  | ["ss", t, l] => match parseTag8 t, l.toNat? with
    | some t, some l => some (.sequenceStart t l)
    | _, _ => none
  | ["is", l] => l.toNat?.map .itemStart
  | ["iv", h] => (unhex h).map .itemValue
  | ["ot", b] => if b == "-" then some (.offsetTable []) else (allSome ((splitComma b).map String.toNat?)).map .offsetTable
  | "pv" :: rest => (parseValue (":".intercalate rest)).map fun v => .primitiveValue (valNoTxt v)
  | _ => none

inductive RunEnd where | fin | err | panic
deriving DecidableEq, Repr

def parseRun (l : List String) : Option (List Token × RunEnd) :=
  match l.reverse with
  | last :: revToks =>
    let f := if last == "end" then some RunEnd.fin else if last == "err" then some RunEnd.err
      else if last == "panic" then some RunEnd.panic else none
    match f, allSome (revToks.reverse.map parseTok) with
    | some f, some ts => some (ts, f)
    | _, _ => none
  | [] => none

def normTok (be : Bool) : Token → Token
  | .offsetTable vs => .itemValue (vs.flatMap (enc32 be))
  | .primitiveValue v => .primitiveValue (valNoTxt v)
  | t => t

/-- split `… ; …` sections: list of token lists -/
def sections (l : List String) : List (List String) :=
  l.foldr (fun t acc => if t == ";" then [] :: acc else match acc with
    | a :: r => (t :: a) :: r
    | [] => [[t]]) [[]]

inductive TreeRes where
  | ok (t : List Elem)
  | err | panic
deriving Inhabited

/-- a sequence of `ok ( tree )` | `err` | `panic` results -/
partial def parseTrees (l : List String) : Option (List TreeRes) :=
  match l with
  | [] => some []
  | "err" :: r => (parseTrees r).map (TreeRes.err :: ·)
  | "panic" :: r => (parseTrees r).map (TreeRes.panic :: ·)
  | "ok" :: r =>
    match parseElems r with
    | some (es, _, rest) => (parseTrees rest).map (TreeRes.ok (toL es) :: ·)
    | none => none
  | _ => none

def parseTags (s : String) : Option (List Tag) :=
  if s == "-" then some [] else allSome ((s.splitOn ",").map parseTag8)

inductive FragRes where
  | bot (n : Option (Nat × List Nat))
  | frag (n : Nat) (b : Bytes)
  | none | err | panic
deriving DecidableEq, Repr

def parseFrag (s : String) : Option FragRes :=
  if s == "none" then some .none else if s == "err" then some .err else if s == "panic" then some .panic
  else if s == "bot:none" then some (.bot Option.none)
  else match s.splitOn ":" with
  | ["bot", n, t] => match n.toNat?, (if t == "-" then some [] else allSome ((splitComma t).map String.toNat?)) with
    | some n, some t => some (.bot (some (n, t)))
    | _, _ => Option.none
  | ["fr", n, h] => match n.toNat?, unhex h with
    | some n, some b => some (.frag n b)
    | _, _ => Option.none
  | _ => Option.none

def showFrag : FragRes → String
  | .bot Option.none => "bot:none"
  | .bot (some (n, t)) => s!"bot:{n}:{t}"
  | .frag n b => s!"fr:{n}:{hexOf b}"
  | .none => "none" | .err => "err" | .panic => "panic"

def showFrags (l : List FragRes) : String := " ".intercalate (l.map showFrag)

def showErrC : CErr → String
  | .read _ => "err" | .value _ => "err" | .unexpectedToken => "err" | .missingValue => "err"
  | .prematureEnd => "err" | .illegalState => "err" | .fuel => "FUEL"

/-- model: the fragment calls of the harness (`withBot`: read_basic_offset_table first) -/
def modelFrags (fuel : Nat) (withBot : Bool) (c0 : Coll) : List FragRes :=
  let (pre, c1?) : List FragRes × Option Coll :=
    if withBot then
      match c0.readBasicOffsetTable fuel with
      | .ok (r, c1) => ([.bot r], some c1)
      | .error _ => ([.err], Option.none)
    else ([], some c0)
  match c1? with
  | Option.none => pre
  | some c1 =>
    let rec go : Nat → Coll → List FragRes
      | 0, _ => []
      | k + 1, c =>
        match c.readNextFragment fuel with
        | .ok (some (n, b), c') => .frag n b :: go k c'
        | .ok (Option.none, _) => [.none]
        | .error _ => [.err]
    pre ++ go 64 c1

def pixOf (es : List Elem) : Option (List Nat × List Bytes) :=
  es.findSome? fun e => match e with | .pix b f => some (b, f) | _ => Option.none

mutual
/-- every encapsulated pixel data element of the tree, at any depth -/
def elemPixes : Elem → List (List Nat × List Bytes)
  | .pix b f => [(b, f)]
  | .seq _ _ its => itemsPixes its
  | _ => []
def itemsPixes : Items → List (List Nat × List Bytes)
  | .nil => []
  | .cons _ es r => elemsPixes es ++ itemsPixes r
def elemsPixes : Elems → List (List Nat × List Bytes)
  | .nil => []
  | .cons e r => elemPixes e ++ elemsPixes r
end

def hasNativePix (es : List Elem) : Bool :=
  es.any fun e => match e with | .prim t _ _ _ => t == Tag.pixelData | _ => false

mutual
def elemNestedPix : Elem → Bool
  | .seq _ _ its => itemsNestedPix its
  | _ => false
def itemsNestedPix : Items → Bool
  | .nil => false
  | .cons _ es r => elemsAnyPix es || itemsNestedPix r
def elemsAnyPix : Elems → Bool
  | .nil => false
  | .cons e r => (match e with | .pix _ _ => true | .prim t _ _ _ => t == Tag.pixelData | .seq _ _ its => itemsNestedPix its) || elemsAnyPix r
end

def nestedPix (es : List Elem) : Bool := es.any elemNestedPix

def treeStr (r : TreeRes) : String := match r with | .ok _ => "ok" | .err => "err" | .panic => "panic"

def handle (line : String) : String :=
  match tokens line with
  | ["skip"] => "ok trivial-skip"
  | "f" :: ts :: "D" :: dict :: "B" :: hex :: "E" :: rest =>
    match tsOf3 ts, parseDict dict, unhex hex, sections rest with
    | some syn, some d, some bs, [eS, "L" :: lS, "M" :: cm :: wm :: "W" :: wS, "C" :: stops :: cS, "A" :: aS,
        "F" :: fS, "G" :: gS, "U" :: ut :: uS, "T" :: tt :: tS, []] =>
      match parseRun eS, parseRun lS, parseTrees wS, parseTags stops, parseTrees cS, parseTrees aS,
        allSome (fS.map parseFrag), allSome (gS.map parseFrag), parseTag8 ut, parseTrees uS, parseTag8 tt, parseTrees tS with
      | some (eT, eF), some (lT, lF), some [w], some stopTags, some portions, some [a], some fR, some gR,
          some utag, some [uR], some ttag, some [tR] =>
        let be := syn.bigEndian
        let dictf := dictFn d
        let fuel := bs.length + 2
        -- ===== the property =====
        if eF ≠ .fin then s!"PROP-FAIL class=eager-read-failed the eager reader rejects the generated data set" else
        if lF ≠ .fin ∨ lT ≠ eT.map (normTok be) then
          s!"PROP-FAIL class=lazy-differs-from-eager lazy={lT.length} tokens fin={if lF == .fin then "end" else "err"}, eager={eT.length} tokens"
        else
        match w with
        | .err => "PROP-FAIL class=open-failed opening the whole file fails"
        | .panic => "PROP-FAIL class=open-panic"
        | .ok wEs =>
          if cm ≠ wm then s!"PROP-FAIL class=collector-meta-differs collector={cm} whole={wm}" else
          -- portions
          let portionFail := portions.any fun p => match p with | .ok _ => false | _ => true
          let portionEs := portions.flatMap fun p => match p with | .ok es => es | _ => []
          let wPix := pixOf wEs
          let allPix := elemsPixes (elemsOfList wEs)
          let zeroFrag := allPix.any fun p => p.2.any (·.isEmpty)
          let emptyBotWithFrags := allPix.any fun p => p.1.isEmpty && !p.2.isEmpty
          let nested := nestedPix wEs
          let pixClass (what : String) : String :=
            if emptyBotWithFrags then s!"PROP-FAIL class=collector-empty-offset-table-takes-first-fragment {what}: with an empty basic offset table the first fragment is decoded as the offset table"
            else if zeroFrag then s!"PROP-FAIL class=collector-drops-zero-length-fragment {what}: a zero-length fragment is missing"
            else s!"PROP-FAIL class=collector-differs-from-whole {what}"
          let dropPix (es : List Elem) : List Elem := es.filter fun e => match e with | .pix _ _ => false | _ => true
          if portionFail then s!"PROP-FAIL class=collector-portion-failed {portions.map treeStr}" else
          if portions.length ≠ stopTags.length + 1 then "BAD-LINE portions" else
          -- `read_dataset_up_to(stop)` excludes the stop tag: a portion holds only elements below its stop tag
          let beyond := (List.zip stopTags portions).any fun (st, p) => match p with
            | .ok es => es.any fun e => !(e.tag.lt st)
            | _ => false
          if beyond then "PROP-FAIL class=portion-beyond-stop a portion read with read_dataset_up_to(stop) holds an element with tag ≥ stop" else
          if !sameElems portionEs wEs then
            (if sameElems (dropPix portionEs) (dropPix wEs) && !nested then pixClass "portions"
             else if nested && (elemsAnyPix (elemsOfList wEs)) then pixClass "portions (nested pixel data)"
             else "PROP-FAIL class=collector-differs-from-whole portions concatenated ≠ whole object")
          else
          match a with
          | .err => "PROP-FAIL class=collector-portion-failed read_dataset_to_end fails"
          | .panic => "PROP-FAIL class=collector-panic read_dataset_to_end"
          | .ok aEs =>
            if !sameElems aEs wEs then pixClass "read_dataset_to_end" else
            -- fragments one by one (top-level encapsulated pixel data, no pixel data nested before it)
            let fragFail : Option String :=
              match wPix with
              | some (bot, frags) =>
                if nested then Option.none else
                let botBytes := bot.flatMap (enc32 be)
                let expectG := (FragRes.frag botBytes.length botBytes :: frags.map fun f => FragRes.frag f.length f) ++ [FragRes.none]
                let expectF := (FragRes.bot (some (botBytes.length, bot)) :: frags.map fun f => FragRes.frag f.length f) ++ [FragRes.none]
                let after := fun (got : List FragRes) (exp : List FragRes) =>
                  -- everything expected is there, but more "fragments" follow
                  got.length > exp.length && got.take (exp.length - 1) == exp.take (exp.length - 1)
                if gR ≠ expectG then
                  some (if after gR expectG then "PROP-FAIL class=fragment-after-pixeldata-end read_next_fragment returns values of later elements as fragments"
                        else "PROP-FAIL class=fragments-differ read_next_fragment sequence ≠ offset table bytes + fragments of the object")
                else if fR ≠ expectF then
                  some (if after fR expectF then "PROP-FAIL class=fragment-after-pixeldata-end read_next_fragment returns values of later elements as fragments"
                        else "PROP-FAIL class=fragments-differ read_basic_offset_table + read_next_fragment ≠ the object's")
                else Option.none
              | Option.none => Option.none
            match fragFail with
            | some m => m
            | Option.none =>
              -- read_until / read_to
              let expU := wEs.filter fun e => e.tag.lt utag
              let expT := wEs.filter fun e => !(ttag.lt e.tag)
              match uR, tR with
              | .ok uEs, .ok tEs =>
                if !sameElems uEs expU then s!"PROP-FAIL class=read-until-differs" else
                if !sameElems tEs expT then s!"PROP-FAIL class=read-to-differs" else
                -- ===== the models =====
                let (mE, mEe) := readTokens fuel (RState.new syn dictf bs)
                if mEe.isSome ∨ mE.map (normTok be) ≠ eT.map (normTok be) ∨ mE.map (fun t => match t with | .offsetTable _ => 1 | _ => 0) ≠ eT.map (fun t => match t with | .offsetTable _ => 1 | _ => 0) then
                  "MODEL-DIFF eager reader model ≠ implementation tokens" else
                let (mL, mLe) := lazyTokens fuel (LState.new syn dictf bs)
                if mLe.isSome ∨ mL.map (normTok be) ≠ lT then "MODEL-DIFF lazy reader model ≠ implementation tokens" else
                -- collector portions
                let c0 := Coll.new syn dictf bs
                let rec runPortions : List Tag → Coll → Option (List (List Elem))
                  | [], c => match c.readDatasetToEnd fuel with
                    | .ok (es, _) => some [objectOf es]
                    | .error _ => Option.none
                  | st :: more, c => match c.readDatasetUpTo fuel st with
                    | .ok (es, c') => (runPortions more c').map (objectOf es :: ·)
                    | .error _ => Option.none
                match runPortions stopTags c0 with
                | Option.none => "MODEL-DIFF collector model fails, implementation reads"
                | some mPortions =>
                  let implPortions := portions.map fun p => match p with | .ok es => es | _ => []
                  if mPortions.length ≠ implPortions.length ∨ !(List.zipWith sameElems mPortions implPortions).all id then
                    "MODEL-DIFF collector model portions ≠ implementation portions" else
                  if modelFrags fuel true c0 ≠ fR then s!"MODEL-DIFF fragments (offset table first) model=[{showFrags (modelFrags fuel true c0)}] impl=[{showFrags fR}]" else
                  if modelFrags fuel false c0 ≠ gR then s!"MODEL-DIFF fragments model=[{showFrags (modelFrags fuel false c0)}] impl=[{showFrags gR}]" else
                  match buildObjectS (some utag) Option.none (mE.length + 1) mE [], buildObjectS Option.none (some ttag) (mE.length + 1) mE [] with
                  | .ok mU, .ok mT =>
                    if !sameElems mU uEs then "MODEL-DIFF read_until model ≠ implementation" else
                    if !sameElems mT tEs then "MODEL-DIFF read_to model ≠ implementation" else
                    let px := match wPix with
                      | some (b, fr) => s!"px-bot{min b.length 2}-fr{min fr.length 3}-z{zeroFrag}"
                      | Option.none => if hasNativePix wEs then "px-native" else "nopx"
                    let triv := if wEs.isEmpty then "trivial-" else ""
                    s!"ok {triv}c06-{ts}-n{min wEs.length 4}-{px}-nested{nested}-stops{stopTags.length}-u{min uEs.length 2}-t{min tEs.length 2}"
                  | _, _ => "MODEL-DIFF build_object model with stop tags fails"
              | _, _ => "PROP-FAIL class=open-with-stop-failed read_until / read_to open fails"
      | _, _, _, _, _, _, _, _, _, _, _, _ => "BAD-LINE fields"
    | _, _, _, _ => "BAD-LINE layout"
  | _ => "BAD-LINE"

def main : IO Unit := Driver.run handle
