import DicomModel.Model.Util
import DicomModel.Model.Assoc
import DicomModel.Model.AssocClient
import DicomModel.Model.AssocLine
import Driver.Loop
open Dicom Dicom.Assoc Dicom.Assoc.Line

structure Env where
  impl : Impl
  reg : List Str

def parseReg (ts : Toks) : Option Env := do
  let (ic, r) ← str ts
  let (iv, r) ← str r
  let (reg, _) ← counted str r
  some ⟨⟨ic, iv⟩, reg⟩

def optStr : P (Option Str)
  | "none" :: r => some (none, r)
  | t :: r => if t.startsWith "some:" then (unhexStr (t.drop 5).toString).map (fun s => (some s, r)) else none
  | [] => none

structure ClientLine where
  opts : ClientOpts
  addrTitle : Option Str
  rawContexts : List (Str × List Str)

/-- requestor options, built with the model's builder functions from the values given to the real builder -/
def clientLine : P ClientLine := fun ts => do
  let (calling, r) ← str ts
  let (called, r) ← optStr r
  let (addr, r) ← optStr r
  let (maxpdu, r) ← nat r
  let (strict, r) ← bool r
  let (ctxs, r) ← counted (fun ts => do
      let (a, r) ← str ts
      let (tss, r) ← counted str r
      some ((a, tss), r)) r
  let (ext, r) ← counted userVar r
  let (roles, r) ← counted userVar r
  let (idn, r) ← (match r with
    | "none" :: r' => some (none, r')
    | _ => (userVar r).bind fun (u, r') => match u with
      | .identity i => some (some i, r')
      | _ => none)
  let extL : List (Str × Bytes) := ext.filterMap (fun x => match x with | .extNeg u d => some (u, d) | _ => none)
  let roleL : List (Str × Bool × Bool) := roles.filterMap (fun x => match x with | .role u a b => some (u, a, b) | _ => none)
  let o0 : ClientOpts := { calling := calling, called := called, strict := strict, identity := idn, extNeg := extL, roles := roleL }
  let o1 := o0.withMaxPdu maxpdu
  let o2 := ctxs.foldl (fun o (a, tss) => o.withContext a tss) o1
  some (⟨o2, addr, ctxs⟩, r)

def wireList : P (List (Nat × Nat)) := counted fun
  | t :: r => match t.splitOn ":" with
    | [a, b] => do some ((← a.toNat?, ← b.toNat?), r)
    | _ => none
  | [] => none

structure Step where
  kind : String
  byClient : Bool
  sizes : List Nat
  snd : String
  rcv : String

def steps : P (List Step) := counted fun
  | t :: r => match t.splitOn "/" with
    | [k, by', sz, s, rc] =>
      let sizes := if sz == "-" then some [] else (sz.splitOn ",").mapM String.toNat?
      sizes.map fun z => (⟨k, by' == "c", z, s, rc⟩, r)
    | _ => none
  | [] => none

def showClientErr : ClientErr → String
  | .missingAbstractSyntax => "err:missing-abstract-syntax" | .tooManyContexts => "err:other"
  | .protocolVersion => "err:protocol-version" | .noneAccepted => "err:none-accepted"
  | .rejected => "err:rejected" | .unexpectedPdu => "err:unexpected-pdu"
  | .unknownPdu => "err:unknown-pdu" | .receive => "err:receive"

def showClientView (v : ClientView) : Toks :=
  ["ok", toString v.peerMaxPdu, toString v.localMaxPdu, hexOfStr v.peerAeTitle] ++
  showNegotiated v.contexts ++ showUvs v.userVars

def parseClientView (ts : Toks) : Option (Nat × Nat × List Negotiated) :=
  match ts with
  | "ok" :: r => do
    let (pm, r) ← nat r
    let (lm, r) ← nat r
    let (_, r) ← str r
    let (negs, _) ← counted negotiated r
    some (pm, lm, negs)
  | _ => none

def parseServerView (ts : Toks) : Option (Nat × Nat × List Negotiated) :=
  match ts with
  | "ok" :: r => do
    let (pm, r) ← nat r
    let (lm, r) ← nat r
    let (_, r) ← str r
    let (_, r) ← str r
    let (negs, _) ← counted negotiated r
    some (pm, lm, negs)
  | _ => none

def sizeClass (n : Nat) : String :=
  if n < MINIMUM_PDU_SIZE then "low" else if n = MINIMUM_PDU_SIZE then "min"
  else if n = DEFAULT_MAX_PDU then "dflt" else if n ≥ MAXIMUM_PDU_SIZE then "max" else "n"

def pcount (l : List (Nat × Nat)) (t : Nat) : Nat := (l.filter (·.1 == t)).length

def fail (c d : String) : String := s!"PROP-FAIL class={c} {d}"

def handleCase (env : Env) (mode : String) (ts : Toks) : String :=
  let tcp := mode == "tcp"
  match sections ts with
  | [cliT, cfgT, rqT, replyT, cliResT, srvResT, stepsT, c2sT, s2cT] =>
    match clientLine cliT, cfgLine cfgT, steps stepsT, wireList c2sT, wireList s2cT with
    | some (cl, []), some (sl, []), some (script, []), some (c2s, []), some (s2c, []) =>
      let o := cl.opts
      let cfg := sl.cfg
      let cliOk := cliResT.head? == some "ok"
      let srvOk := srvResT.head? == some "ok"
      let nctx := o.contexts.length
      let nb := if nctx ≤ 4 then toString nctx else if nctx ≤ 12 then "5+" else if nctx ≤ 128 then "13+" else "129+"
      match createRq .repaired env.impl o cl.addrTitle with
      | .error e =>
        -- no request may be produced; if one was, its identifiers decide
        match rqT with
        | ["none"] =>
          if cliOk then s!"MODEL-DIFF requestor established without a request"
          else if e == .missingAbstractSyntax && cliResT ≠ ["err:missing-abstract-syntax"] then
            s!"MODEL-DIFF requestor model={showClientErr e} impl={cliResT}"
          else s!"ok norq-{showClientErr e}-n{nb}"
        | "rq" :: r =>
          match request r with
          | some (q, []) =>
            let ids := q.contexts.map (·.id)
            if ids.eraseDups.length ≠ ids.length ∨ ids.any (· % 2 == 0) then
              fail (if nctx > 128 then "context-id-wraps" else "ids-distinct-odd")
                s!"{nctx} contexts proposed, identifiers on the wire {ids.take 3}…{(ids.drop 126).take 6}"
            else s!"MODEL-DIFF request produced where the model refuses ({showClientErr e})"
          | _ => "BAD-LINE"
        | _ => s!"MODEL-DIFF requestor model={showClientErr e} wire={rqT.take 3}"
      | .ok (proposed, rq) =>
        match (seen rqT), (seen replyT) with
        | some (.pdu (.assocRQ wrq)), some reply =>
          -- (1) identifiers
          let ids := wrq.contexts.map (·.id)
          if ids.eraseDups.length ≠ ids.length ∨ ids.any (· % 2 == 0) ∨ ids.any (· ≥ 256) then
            fail "ids-distinct-odd" s!"identifiers on the wire {ids}"
          else
          -- the request on the wire is the model's request seen through the reader
          let mrq := wireRq wireTrim rq
          if showPdu (.assocRQ mrq) ≠ rqT then
            s!"MODEL-DIFF request model={" ".intercalate ((showPdu (.assocRQ mrq)).take 40)} impl={" ".intercalate (rqT.take 40)}"
          else
          let rqlen := (c2s.head?.map (·.2)).getD 0
          let replen := (s2c.head?.map (·.2)).getD 0
          let pre : Option String :=
            -- refusals of `establish` and of its PDU reader, before request processing (sockets only)
            if !tcp then none
            else if cfg.abstractSyntaxes.isEmpty && !cfg.promiscuous then some "srv-missing-abstract-syntax"
            else if cfg.maxPdu < MINIMUM_PDU_SIZE then some "srv-invalid-max-pdu"
            else if sl.strict && rqlen > cfg.maxPdu then some "srv-rq-too-large"
            else none
          match pre with
          | some why =>
            if srvOk then fail "views-differ" s!"acceptor established although {why}"
            else if cliOk then fail "views-differ" s!"requestor established although the acceptor refused ({why})"
            else s!"ok pre-{why}"
          | none =>
          -- (2) the property on the implementation's outputs
          let cview := parseClientView cliResT
          let sview := parseServerView srvResT
          let noneAccepted : Bool := match reply with
            | .pdu (.assocAC ac) => ac.contexts.all (·.reason != .acceptance)
            | _ => true
          let stable := o.contexts.all fun (a, _) => trimUid (wireTrim a) == a
          let v1 : Option String :=
            if noneAccepted && cliOk then some (fail "none-accepted" "no context accepted but the requestor established the association")
            else match cview, sview with
            | some (cpm, clm, cneg), some (spm, slm, sneg) =>
              let ct := cneg.map fun n => (n.id, n.abstractSyntax, n.transferSyntax)
              let st := (sneg.filter (·.reason == .acceptance)).map fun n => (n.id, n.abstractSyntax, n.transferSyntax)
              if stable && ct ≠ st then
                some (fail "views-differ" s!"requestor {ct.map (·.1)} acceptor {st.map (·.1)} (ids); first difference {((ct.zip st).find? fun (a, b) => a != b).map fun (a, b) => (hexOfStr a.2.1, hexOfStr b.2.1, hexOfStr a.2.2, hexOfStr b.2.2)}")
              -- (in-process composition only: a side whose own maximum is below the minimum never gets
              -- this far over a socket, its PDU reader refuses; 0 then reads as "unlimited" at the peer)
              else if !(o.maxPdu ≥ MINIMUM_PDU_SIZE && cfg.maxPdu ≥ MINIMUM_PDU_SIZE) then none
              else if cpm ≠ slm ∨ spm ≠ clm then
                some (fail "max-pdu-views" s!"requestor(local={clm},peer={cpm}) acceptor(local={slm},peer={spm})")
              else
                -- (3) PDU sizes on the wire after establishment
                let bigC := (c2s.drop 1).find? fun (_, l) => l > slm
                let bigS := (s2c.drop 1).find? fun (_, l) => l > clm
                match bigC, bigS with
                | some (t, l), _ => some (fail "pdu-too-long" s!"requestor sent PDU type {t} length {l} > acceptor maximum {slm}")
                | _, some (t, l) => some (fail "pdu-too-long" s!"acceptor sent PDU type {t} length {l} > requestor maximum {clm}")
                | none, none =>
                  -- (4) over-long sends are rejected locally
                  let bad := script.find? fun st =>
                    st.kind == "pd" && st.snd != "-" &&
                      pdataLen st.sizes > (if st.byClient then slm else clm) + PDU_HEADER_SIZE && st.snd != "err:too-long"
                  match bad with
                  | some st => some (fail "overlong-not-rejected" s!"P-DATA of {pdataLen st.sizes} bytes by {if st.byClient then "requestor" else "acceptor"}: {st.snd}")
                  | none =>
                    let expC := (script.filter fun st => st.byClient && st.kind == "pd" && st.snd == "ok").length +
                      ((script.filter fun st => st.byClient && st.kind == "wr").map fun st =>
                        ((st.rcv.splitOn ",").getD 1 "0").toNat!).sum
                    let expS := (script.filter fun st => !st.byClient && st.kind == "pd" && st.snd == "ok").length +
                      ((script.filter fun st => !st.byClient && st.kind == "wr").map fun st =>
                        ((st.rcv.splitOn ",").getD 1 "0").toNat!).sum
                    if pcount c2s 4 ≠ expC ∨ pcount s2c 4 ≠ expS then
                      some (fail "overlong-on-wire" s!"P-DATA PDUs on the wire c2s={pcount c2s 4} (accepted sends {expC}) s2c={pcount s2c 4} ({expS})")
                    else none
            | _, _ => none
          match v1 with
          | some f => f
          | none =>
          -- (5) the models
          let out := processRq .repaired cfg env.reg sl.pol env.impl (.assocRQ wrq)
          let mReply := showPdu out.reply
          let mSrv := match out.result with | .ok v => showView v | .error e => [showErr e]
          if mReply ≠ replyT then s!"MODEL-DIFF reply model={" ".intercalate (mReply.take 30)} impl={" ".intercalate (replyT.take 30)}"
          else if mSrv ≠ srvResT then s!"MODEL-DIFF acceptor model={" ".intercalate (mSrv.take 30)} impl={" ".intercalate (srvResT.take 30)}"
          else
          let mCli : Except ClientErr ClientView :=
            if tcp && o.maxPdu < MINIMUM_PDU_SIZE then .error .receive
            else if tcp && o.strict && replen > o.maxPdu then .error .receive
            else match reply with
              | .pdu p => processResp o p proposed
              | .rj _ _ _ => .error .rejected
              | .other _ => .error .receive
          let mCliT := match mCli with | .ok v => showClientView v | .error e => [showClientErr e]
          if mCliT ≠ cliResT then s!"MODEL-DIFF requestor model={" ".intercalate (mCliT.take 30)} impl={" ".intercalate (cliResT.take 30)}"
          else
          -- the script, when both sides are up
          let scriptDiff : Option String := match mCli, out.result with
            | .ok cv, .ok sv =>
              (script.find? fun st =>
                if st.kind == "pd" && st.snd != "-" then
                  let limit := (if st.byClient then cv.peerMaxPdu else sv.peerMaxPdu) + PDU_HEADER_SIZE
                  let want := if pdataLen st.sizes > limit then "err:too-long" else "ok"
                  let wantR := if want == "ok" then s!"pd,{st.sizes.length},{st.sizes.sum}" else "-"
                  st.snd != want || st.rcv != wantR
                else if st.kind == "wr" && st.snd != "-" then
                  st.snd != "ok" || ((st.rcv.splitOn ",").getD 2 "") != toString (st.sizes.headD 0)
                else if st.kind == "release" then st.snd != "ok" || st.rcv != "ok"
                else if st.kind == "abort" then st.snd != "ok" || st.rcv != "ab,2,0"
                else false).map fun st => s!"MODEL-DIFF script step {st.kind} by {if st.byClient then "c" else "s"} sizes={st.sizes} sender={st.snd} receiver={st.rcv}"
            | _, _ => none
          match scriptDiff with
          | some d => d
          | none =>
            let acc := match out.result with
              | .ok sv => (sv.contexts.filter (·.reason == .acceptance)).length
              | .error _ => 0
            let ab := if acc == 0 then "0" else if acc == 1 then "1" else if acc ≤ 4 then "2+" else "5+"
            let sc := String.join ((script.map fun st => s!"{st.kind.take 2}{if st.snd == "err:too-long" then "!" else if st.snd == "-" then "~" else ""}").eraseDups.mergeSort (· ≤ ·))
            let res := match mCli, out.result with
              | .ok _, .ok _ => "both"
              | .error e, .ok _ => s!"cli-{showClientErr e}"
              | .error e, .error _ => s!"rej-{showClientErr e}"
              | .ok _, .error _ => "odd"
            let sig := s!"{mode}-{res}-n{nb}-a{ab}-c{sizeClass o.maxPdu}-s{sizeClass cfg.maxPdu}-{sc}{if stable then "" else "-sloppy"}"
            if res == "both" then s!"ok {sig}" else s!"ok {mode}-{res}-n{nb}-c{sizeClass o.maxPdu}-s{sizeClass cfg.maxPdu}"
        | _, _ =>
          -- a request should have been sent; the acceptor may have been unable to start
          if rqT == ["none"] then s!"MODEL-DIFF no request on the wire; requestor={cliResT}" else "BAD-LINE"
    | _, _, _, _, _ => "BAD-LINE"
  | _ => "BAD-LINE"

partial def loop (h out : IO.FS.Stream) (env : Option Env) : IO Unit := do
  let line ← h.getLine
  if line.isEmpty then return ()
  let l := line.trimAscii.toString
  if l.isEmpty then loop h out env else
  let (id, body) := Driver.splitId l
  match tokens body with
  | "reg" :: r =>
    match parseReg r with
    | some e => out.putStrLn s!"{id} ok trivial-registry-{e.reg.length}"; loop h out (some e)
    | none => out.putStrLn s!"{id} BAD-LINE"; loop h out env
  | ["skip", _] => out.putStrLn s!"{id} ok trivial-skip"; loop h out env
  | "assoc" :: mode :: r =>
    match env with
    | some e => out.putStrLn s!"{id} {handleCase e mode r}"; loop h out env
    | none => out.putStrLn s!"{id} BAD-LINE no-registry"; loop h out env
  | _ => out.putStrLn s!"{id} BAD-LINE"; loop h out env

def main : IO Unit := do
  let i ← IO.getStdin
  let o ← IO.getStdout
  loop i o none
  o.flush
