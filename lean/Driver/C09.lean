import DicomModel.Model.Util
import DicomModel.Model.Meta
import Driver.Loop
open Dicom Dicom.Meta

abbrev P (α : Type) := List String → Option (α × List String)

def pOptTok (s : String) : Option (Option Bytes) :=
  if s == "~" then some none else (unhex s).map some

def pTable : P Table
  | igl :: v0 :: v1 :: cls :: inst :: ts :: impl :: ivn :: src :: snd :: rcv :: pic :: priv :: rest =>
    match igl.toNat?, v0.toNat?, v1.toNat?, unhex cls, unhex inst, unhex ts, unhex impl with
    | some igl, some v0, some v1, some cls, some inst, some ts, some impl =>
      match pOptTok ivn, pOptTok src, pOptTok snd, pOptTok rcv, pOptTok pic, pOptTok priv with
      | some ivn, some src, some snd, some rcv, some pic, some priv =>
        some (⟨igl, (v0, v1), cls, inst, ts, impl, ivn, src, snd, rcv, pic, priv⟩, rest)
      | _, _, _, _, _, _ => none
    | _, _, _, _, _, _, _ => none
  | _ => none

def pVer (s : String) : Option (Option (Nat × Nat)) :=
  if s == "~" then some none else
  match s.splitOn "," with
  | [a, b] => match a.toNat?, b.toNat? with
    | some a, some b => some (some (a, b))
    | _, _ => none
  | _ => none

/-- builder inputs → builder state after the (padding) setters -/
def pBuilder : P Builder
  | gl :: ver :: cls :: inst :: ts :: impl :: ivn :: src :: snd :: rcv :: pic :: priv :: rest =>
    let g : Option (Option Nat) := if gl == "~" then some none else gl.toNat?.map some
    match g, pVer ver, pOptTok cls, pOptTok inst, pOptTok ts, pOptTok impl with
    | some g, some ver, some cls, some inst, some ts, some impl =>
      match pOptTok ivn, pOptTok src, pOptTok snd, pOptTok rcv, pOptTok pic, pOptTok priv with
      | some ivn, some src, some snd, some rcv, some pic, some priv =>
        some ({ gl := g, ver := ver, cls := cls.map uiPadded, inst := inst.map uiPadded,
                ts := ts.map uiPadded, impl := impl.map uiPadded, ivn := ivn.map txtPadded,
                src := src.map txtPadded, snd := snd.map txtPadded, rcv := rcv.map txtPadded,
                pic := pic.map uiPadded, priv := priv }, rest)
      | _, _, _, _, _, _ => none
    | _, _, _, _, _, _ => none
  | _ => none

/-- `SRC b …` / `SRC l …`: the model's initial table (`none` = build error) -/
def pSrc (d : Defaults) : P (Option Table)
  | "b" :: ts => match pBuilder ts with
    | some (b, rest) => some (b.build d, rest)
    | none => none
  | "l" :: ts => match pTable ts with
    | some (t, rest) => some (some (update t), rest)
    | none => none
  | _ => none

def pPV (s : String) : Option PV :=
  match s.splitOn "." with
  | ["o"] => some .other
  | ["s", h] => (unhex h).map .str
  | "ss" :: k :: hs =>
    match k.toNat?, hs.mapM unhex with
    | some k, some l => if l.length = k then some (.strs l) else none
    | _, _ => none
  | _ => none

def pAction (s : String) : Option Action :=
  match s.splitOn ":" with
  | ["remove"] => some .remove
  | ["empty"] => some .empty
  | ["setvr"] => some .setVr
  | ["trunc"] => some .truncate
  | ["pushstr"] => some .pushStr
  | ["pushnum"] => some .pushNum
  | ["set", v] => (pPV v).map .set
  | ["sim", v] => (pPV v).map .setIfMissing
  | ["rep", v] => (pPV v).map .replace
  | ["setstr", h] => (unhex h).map .setStr
  | ["ssim", h] => (unhex h).map .setStrIfMissing
  | ["repstr", h] => (unhex h).map .replaceStr
  | _ => none

def pSel (s : String) : Option Sel :=
  match s.splitOn ":" with
  | ["n"] => some .nested
  | ["t", g, e] => match g.toNat?, e.toNat? with
    | some g, some e => some (.tag ⟨g, e⟩)
    | _, _ => none
  | _ => none

structure OpRec where
  sel : Sel
  act : Action
  ok : Bool
  after : Table

def pOps : Nat → P (List OpRec)
  | 0, ts => some ([], ts)
  | n + 1, sel :: act :: res :: ts =>
    match pSel sel, pAction act, pTable ts with
    | some s, some a, some (t, rest) =>
      match pOps n rest with
      | some (l, r) => some (⟨s, a, res == "ok", t⟩ :: l, r)
      | none => none
    | _, _, _ => none
  | _, _ => none

/-- run the history on the model next to the implementation's states; first disagreement -/
def runOps (t : Table) : List OpRec → Nat → Except String Table
  | [], _ => .ok t
  | o :: os, i =>
    -- property: the implementation's table keeps its recorded length equal to the computed one
    if o.after.igl ≠ calcLen o.after then
      .error s!"PROP-FAIL class=group-length-not-updated-after-op step={i} recorded={o.after.igl} computed={calcLen o.after}"
    else
    let r := apply t o.sel o.act
    if r.2.isNone ≠ o.ok then .error s!"MODEL-DIFF op-result step={i} model-ok={r.2.isNone} impl-ok={o.ok}"
    else if r.1 ≠ o.after then .error s!"MODEL-DIFF op-table step={i}"
    else runOps r.1 os (i + 1)

def showRes {α} (r : Except RErr α) : String :=
  match r with | .ok _ => "ok" | .error _ => "err"

def optStr (o : Option Bytes) : String := match o with | some b => hexOf b | none => "~"

def parseDefaults : P Defaults
  | "D" :: a :: b :: rest => match unhex a, unhex b with
    | some a, some b => some (⟨a, b⟩, rest)
    | _, _ => none
  | _ => none

def sigOps (ops : List OpRec) : String :=
  let n := ops.length
  let nOk := (ops.filter (·.ok)).length
  s!"{if n = 0 then "noops" else if n = 1 then "1op" else "ops"}{if nOk < n then "-witherr" else ""}"

def handleMeta (ts : List String) : String :=
  match parseDefaults ts with
  | none => "BAD-LINE"
  | some (d, ts) =>
  match ts with
  | "SRC" :: ts =>
    match pSrc d ts with
    | none => "BAD-LINE"
    | some (m0, ts) =>
    match ts, m0 with
    | ["T0", "err"], none => "ok build-missing-ts"
    | ["T0", "err"], some _ => "MODEL-DIFF build model=ok impl=err"
    | "T0" :: "ok" :: ts, m0 =>
      match pTable ts with
      | none => "BAD-LINE"
      | some (t0, ts) =>
      if t0.igl ≠ calcLen t0 then s!"PROP-FAIL class=built-table-group-length recorded={t0.igl} computed={calcLen t0}" else
      if m0 ≠ some t0 then "MODEL-DIFF build table" else
      match ts with
      | "OPS" :: n :: ts =>
        match n.toNat? with
        | none => "BAD-LINE"
        | some n =>
        match pOps n ts with
        | none => "BAD-LINE"
        | some (ops, ts) =>
        match runOps t0 ops 0 with
        | .error e => e
        | .ok t =>
        match ts with
        | ["W", "err"] =>
          (match encodeMeta t with
           | .ok _ => "MODEL-DIFF write model=ok impl=err"
           | .error _ => s!"ok write-too-long-{sigOps ops}")
        | "W" :: w :: "RB" :: tail :: rb =>
          match unhex w, unhex tail with
          | some wb, some tl =>
            -- property on the written bytes: recorded group length = bytes that follow
            match recordedVsActual wb with
            | none => "PROP-FAIL class=written-group-malformed"
            | some (gl, act, rest) =>
              if gl ≠ act ∨ rest ≠ [] then s!"PROP-FAIL class=group-length-mismatch recorded={gl} actual={act} trailing={rest.length}"
              else
              match rb with
              | ["err"] => "PROP-FAIL class=meta-roundtrip read=err"
              | "ok" :: rbt =>
                match pTable rbt with
                | some (t2, [rest2, "EQ", eq]) =>
                  if eq ≠ "1" then "PROP-FAIL class=meta-roundtrip read table not equal to the written one"
                  else if unhex rest2 ≠ some tl then "PROP-FAIL class=meta-roundtrip reader did not stop at the end of the group"
                  else
                  -- model
                  match encodeMeta t with
                  | .error _ => "MODEL-DIFF write model=err impl=ok"
                  | .ok mb =>
                    if mb ≠ wb then s!"MODEL-DIFF written bytes model={hexOf mb} impl={w}" else
                    match readMeta d (magic ++ wb ++ tl) with
                    | .error _ => "MODEL-DIFF read model=err impl=ok"
                    | .ok (m2, mrest) =>
                      if m2 ≠ t2 then "MODEL-DIFF read table"
                      else if mrest ≠ tl then "MODEL-DIFF read rest"
                      else if tableEq m2 t ≠ true then "MODEL-DIFF tableEq model=false impl=true"
                      else
                        let odd := [t.cls, t.inst, t.ts, t.impl].any (·.length % 2 = 1)
                        let optmask := [t.ivn, t.src, t.snd, t.rcv, t.pic, t.priv].foldl (fun a o => 2 * a + (if o.isSome then 1 else 0)) 0
                        s!"ok rt-{sigOps ops}-opt{optmask}{if odd then "-odd" else ""}"
                | _ => "BAD-LINE"
              | _ => "BAD-LINE"
          | _, _ => "BAD-LINE"
        | _ => "BAD-LINE"
      | _ => "BAD-LINE"
    | _, _ => "BAD-LINE"
  | _ => "BAD-LINE"

structure ReadRec where
  key : String
  res : Option (Table × Bool × Option Bytes)   -- table, data set equal, re-written meta (none = write error)
  panic : Bool := false

def pReads : Nat → P (List ReadRec)
  | 0, ts => some ([], ts)
  | _, [] => some ([], [])
  | n + 1, "R" :: k :: "err" :: ts => (pReads n ts).map fun (l, r) => (⟨k, none, false⟩ :: l, r)
  | n + 1, "R" :: k :: "panic" :: ts => (pReads n ts).map fun (l, r) => (⟨k, none, true⟩ :: l, r)
  | n + 1, "R" :: k :: "ok" :: ts =>
    match pTable ts with
    | some (t, same :: rew :: rest) =>
      let rw : Option Bytes := if rew == "err" then none else unhex rew
      (pReads n rest).map fun (l, r) => (⟨k, some (t, same == "1", rw), false⟩ :: l, r)
    | _ => none
  | _, _ => none

def handleFile (ts : List String) : String :=
  match parseDefaults ts with
  | none => "BAD-LINE"
  | some (d, ts) =>
  match ts with
  | "SRC" :: ts =>
    match pSrc d ts with
    | some (some m0, "OPS" :: n :: ts) =>
      match n.toNat? with
      | none => "BAD-LINE"
      | some n =>
      match pOps n ts with
      | some (ops, "T" :: ts) =>
        match pTable ts with
        | some (t, "AMB" :: amb :: "SOPC" :: sc :: "SOPI" :: si :: "DS" :: ds :: "WA" :: wa :: "WF" :: wf :: rs) =>
          match pOptTok sc, pOptTok si, unhex ds, unhex wa, pReads 6 rs with
          | some sc, some si, some dsb, some wab, some (reads, []) =>
            -- the table the file is written from
            let ambGen := amb == "1"
            match (if ambGen then .ok t else runOps m0 ops 0) with
            | .error e => e
            | .ok tm =>
            if tm ≠ t then "MODEL-DIFF file table" else
            if wf ≠ "same" then s!"PROP-FAIL class=write-to-file-differs-from-write-all {wf}" else
            -- framing of the written file
            if wab.take 132 ≠ List.replicate 128 0 ++ magic then "PROP-FAIL class=file-framing no preamble+DICM" else
            let afterMagic := wab.drop 132
            let deflated := (trimEnd t.ts).length > 19
            match recordedVsActual afterMagic with
            | none => "PROP-FAIL class=file-meta-malformed"
            | some (gl, act, rest) =>
              if gl ≠ act then s!"PROP-FAIL class=file-group-length-mismatch recorded={gl} actual={act}"
              else if !deflated ∧ rest ≠ dsb then "PROP-FAIL class=file-dataset-bytes differ from the data set written alone"
              else
              -- (deflated data sets: the stream is flushed differently by write_all; take the file's own bytes)
              let dsb := rest
              let noPre := wab.drop 128
              let ambiguous := 132 ≤ noPre.length ∧ (noPre.drop 128).take 4 = magic
              -- inference of empty media storage UIDs from the data set
              let infers (x : Table) : Bool := inferSopOld x sc si != x
              -- property on the four reads
              let bad := reads.filter fun r => match r.res with
                | some (rt, same, _) => !(same && (tableEq rt t || infers (padTable' t)))
                | none => true
              let firstT := (reads.head?.bind (·.res)).map (·.1)
              let disagree := reads.any fun r => (r.res.map (·.1)) ≠ firstT
              -- the file without preamble shows `DICM` + the group length tag BOTH at offset 0 and at offset 128
              -- (a value happens to spell them): no reader can tell which is the header, the statement's
              -- "whether or not the preamble is present" presupposes that it can be told (hypothesis
              -- `nonAmbiguous` of the theorems). Such a file is judged by the model comparison only.
              let undecidable := ambiguous ∧ ((noPre.drop 132).take 4 = [2, 0, 0, 0]) ∧
                bad.all (fun r => r.key == "np" || r.key == "nr") ∧
                (reads.filter (fun r => r.key != "np" && r.key != "nr")).all (fun r => match r.res with
                  | some (rt, same, _) => same && (tableEq rt t || infers (padTable' t))
                  | none => false)
              if reads.length ≠ 6 then "BAD-LINE" else
              if (!bad.isEmpty ∨ disagree) ∧ !undecidable then
                let keys := " ".intercalate (bad.map (·.key))
                if ambiguous ∧ bad.all (fun r => r.key.startsWith "n") ∧ !bad.isEmpty then
                  s!"PROP-FAIL class=dicm-at-128-without-preamble failing-reads={keys}"
                else s!"PROP-FAIL class=file-read-differs failing-reads={keys} disagree={disagree}"
              else
              -- re-written meta group of every read object is self-consistent
              let stale := (reads.filter fun r => !(undecidable && r.res.isNone)).filter fun r => match r.res with
                | some (_, _, some rw) => (match recordedVsActual rw with
                    | some (g, a, rest) => g ≠ a ∨ rest ≠ []
                    | none => true)
                | _ => true
              if !stale.isEmpty then
                let cls := if infers (padTable' t) then "stale-group-length-after-sop-inference" else "reread-group-length-mismatch"
                s!"PROP-FAIL class={cls} reads={" ".intercalate (stale.map (·.key))}"
              else
              -- model
              match encodeMeta t with
              | .error _ => "MODEL-DIFF file write model=err"
              | .ok mb =>
                if fileBytes mb dsb ≠ wab then "MODEL-DIFF file bytes" else
                let chk (r : ReadRec) : Option String :=
                  -- (the model has the automatic detection only; with the option stated outright the two agree
                  -- except on ambiguous files, where the explicit reads are judged by the oracle above alone)
                  if (r.key == "nR" || r.key == "pR") && ambiguous then none else
                  let byPath := r.key.endsWith "p"
                  let src := if r.key.startsWith "p" then wab else noPre
                  match openMeta d byPath 8192 src, r.res with
                  | .ok (mt, mrest), some (rt, _, _) =>
                    if inferSop mt sc si ≠ rt then some s!"read-table {r.key}"
                    else if mrest ≠ dsb then some s!"read-rest {r.key}" else none
                  | .error _, none => none
                  | .ok _, none => some s!"read {r.key} model=ok impl=err"
                  | .error _, some _ => some s!"read {r.key} model=err impl=ok"
                match reads.filterMap chk with
                | e :: _ => s!"MODEL-DIFF {e}"
                | [] =>
                  let tsn := if t.ts.take 19 == "1.2.840.10008.1.2.1".toUTF8.toList.map (·.toNat) then
                      (if (trimEnd t.ts).length > 19 then "defl" else "ele") else
                      (if (trimEnd t.ts).length > 17 then "ebe" else "ile")
                  s!"ok file-{tsn}-{sigOps ops}{if infers (padTable' t) then "-infer" else ""}{if ambiguous then "-ambiguous" else ""}{if wab.length < 260 then "-short" else ""}"
          | _, _, _, _, _ => "BAD-LINE"
        | _ => "BAD-LINE"
      | _ => "BAD-LINE"
    | _ => "BAD-LINE"
  | _ => "BAD-LINE"
where
  /-- strings padded as the reader's builder does (model of what is read back) -/
  padTable' (t : Table) : Table :=
    { t with cls := uiPadded t.cls, inst := uiPadded t.inst, ts := uiPadded t.ts, impl := uiPadded t.impl,
             ivn := t.ivn.map txtPadded, src := t.src.map txtPadded, snd := t.snd.map txtPadded,
             rcv := t.rcv.map txtPadded, pic := t.pic.map uiPadded, priv := t.priv.map (padded 0) }

def handle (line : String) : String :=
  match tokens line with
  | "meta" :: ts => handleMeta ts
  | "file" :: ts => handleFile ts
  | _ => "BAD-LINE"

def main : IO Unit := Driver.run handle
