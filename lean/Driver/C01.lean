import DicomModel.Model.Util
import DicomModel.Model.Writer
import DicomModel.Model.Valid
import DicomModel.Model.Build
import Driver.Loop
import Driver.Tree
open Dicom Driver

/-! Driver for C01. Oracle `roundTrips` (the property statement: same attributes, same order, equal values
up to the documented normalisations) evaluated on the data set re-read by the real code — first; then the
model writer / reader / builder are compared with the real bytes and the real re-read tree. -/

def tsOf4 (s : String) : Option Syntax :=
  if s == "0" then some .implicitLE else if s == "1" || s == "3" then some .explicitLE
  else if s == "2" then some .explicitBE else none

def splitBar (l : List String) : List (List String) :=
  l.foldr (fun t acc => if t == "|" then [] :: acc else match acc with
    | a :: r => (t :: a) :: r
    | [] => [[t]]) [[]]

def parseDict (s : String) : Option (List (Tag × Option VR)) :=
  if s == "-" then some [] else
  allSome ((s.splitOn ",").map fun kv => match kv.splitOn "=" with
    | [k, v] => match parseTag8 k with
      | some t => if v == "none" then some (t, none) else (VR.ofName? v).map fun vr => (t, some vr)
      | none => none
    | _ => none)

def dictFn (d : List (Tag × Option VR)) : Tag → Option VR := fun t => (d.lookup t).getD none

/-! ### the property's equality -/

def trimTrail (b : Bytes) : Bytes :=
  (b.reverse.dropWhile fun c => c == 0x20 || c == 0).reverse

def isTextual : PValue → Bool
  | .str _ | .strs _ | .date _ | .dateTime _ | .time _ => true
  | _ => false

/-- unpadded value bytes (text joined by backslash, numbers under DS/IS as text, binary in byte order) -/
def rawValue (be : Bool) (vr : VR) (v : PValue) : Bytes :=
  match v with
  | .str s => s
  | .strs l => joinBackslash l
  | _ => if vr = .DS ∨ vr = .IS then (v.numText?).getD [] else (encodePrimitive be (owWords vr v)).1

/-- text compares by its text, component-wise, ignoring trailing padding -/
def textCanon (b : Bytes) : List Bytes := (splitBackslash b).map trimTrail

/-- "equal values up to trailing padding; textual numbers and dates compare by their text".
Binary values: same bytes on the wire (up to the NUL pad) and the same kind of numbers; bytes held as
`U8` may come back as words (or the reverse) provided the *in-memory* (native, little-endian) bytes are
the same — `strict = false` drops that last requirement (used only to classify a recorded finding). -/
def valueEq (strict : Bool) (be : Bool) (vr vr' : VR) (v v' : PValue) : Bool :=
  let a := rawValue be vr v
  let b := rawValue be vr' v'
  if isTextual v || isTextual v' || vr = .DS || vr = .IS then
    textCanon a == textCanon b || trimTrail a == trimTrail b
  else
    let padEq := fun (x y : Bytes) => x == y || (x.length % 2 == 1 && y == x ++ [0])
    let na := (encodePrimitive false v).1
    let nb := (encodePrimitive false v').1
    if a.isEmpty || valueKind v == valueKind v' then padEq a b
    -- Implicit VR re-labelled the element with the dictionary's VR (documented normalisation): the numbers are
    -- re-read in the other VR's width, "equal values" can only mean the same value field
    else if vr != vr' then padEq a b
    else (valueKind v == "u8" || valueKind v' == "u8") && (if strict then padEq na nb else padEq a b)

def fragEq (a b : Bytes) : Bool := a == b || (a.length % 2 == 1 && b == a ++ [0])

def listAll2 {α : Type} (f : α → α → Bool) : List α → List α → Bool
  | [], [] => true
  | a :: r, b :: s => f a b && listAll2 f r s
  | _, _ => false

/-- expected VR after reading: explicit VR keeps it; Implicit VR gives the dictionary's -/
def expectVr (ts : Syntax) (dict : Tag → Option VR) (t : Tag) (vr : VR) : VR :=
  if ts.explicit then vr else resolveImplicitVr dict t

mutual
def elemRt (strict : Bool) (ts : Syntax) (dict : Tag → Option VR) : Elem → Elem → Bool
  | .prim t vr _ v, .prim t' vr' _ v' =>
    t == t' && vr' == expectVr ts dict t vr && valueEq strict ts.bigEndian vr vr' v v'
  | .seq t _ its, .seq t' _ its' => t == t' && itemsRt strict ts dict its its'
  | .pix bot fr, .pix bot' fr' => bot == bot' && listAll2 fragEq fr fr'
  | _, _ => false
def itemsRt (strict : Bool) (ts : Syntax) (dict : Tag → Option VR) : Items → Items → Bool
  | .nil, .nil => true
  | .cons _ es r, .cons _ es' r' => elemsRt strict ts dict es es' && itemsRt strict ts dict r r'
  | _, _ => false
def elemsRt (strict : Bool) (ts : Syntax) (dict : Tag → Option VR) : Elems → Elems → Bool
  | .nil, .nil => true
  | .cons e r, .cons e' r' => elemRt strict ts dict e e' && elemsRt strict ts dict r r'
  | _, _ => false
end

mutual
/-- the tree without its zero-length pixel fragments (classifier of a recorded finding) -/
def elemDropEmptyFrags : Elem → Elem
  | .pix bot fr => .pix bot (fr.filter (!·.isEmpty))
  | .seq t l its => .seq t l (itemsDropEmptyFrags its)
  | e => e
def itemsDropEmptyFrags : Items → Items
  | .nil => .nil
  | .cons l es r => .cons l (elemsDropEmptyFrags es) (itemsDropEmptyFrags r)
def elemsDropEmptyFrags : Elems → Elems
  | .nil => .nil
  | .cons e r => .cons (elemDropEmptyFrags e) (elemsDropEmptyFrags r)
end

mutual
/-- erase the `Display` text of floats (absent after reading) -/
def elemNoTxt : Elem → Elem
  | .prim t vr l (.f32 c) => .prim t vr l (.f32 (c.map fun p => (p.1, [])))
  | .prim t vr l (.f64 c) => .prim t vr l (.f64 (c.map fun p => (p.1, [])))
  | .seq t l its => .seq t l (itemsNoTxt its)
  | e => e
def itemsNoTxt : Items → Items
  | .nil => .nil
  | .cons l es r => .cons l (elemsNoTxt es) (itemsNoTxt r)
def elemsNoTxt : Elems → Elems
  | .nil => .nil
  | .cons e r => .cons (elemNoTxt e) (elemsNoTxt r)
end

mutual
def elemBeq : Elem → Elem → Bool
  | .prim t vr l v, .prim t' vr' l' v' => t == t' && vr == vr' && l == l' && v == v'
  | .seq t l its, .seq t' l' its' => t == t' && l == l' && itemsBeq its its'
  | .pix b f, .pix b' f' => b == b' && f == f'
  | _, _ => false
def itemsBeq : Items → Items → Bool
  | .nil, .nil => true
  | .cons l es r, .cons l' es' r' => l == l' && elemsBeq es es' && itemsBeq r r'
  | _, _ => false
def elemsBeq : Elems → Elems → Bool
  | .nil, .nil => true
  | .cons e r, .cons e' r' => elemBeq e e' && elemsBeq r r'
  | _, _ => false
end

inductive WOut where
  | bytes (raw : Bytes) (inflated : Option Bytes)
  | err | panic

def parseWOut (s : String) : Option WOut :=
  if s == "err" then some .err else if s == "panic" then some .panic else
  match s.splitOn ":" with
  | ["ok", r, i] =>
    match unhex r with
    | some rb => if i == "x" then some (.bytes rb none) else (unhex i).map fun ib => .bytes rb (some ib)
    | none => none
  | _ => none

inductive ROut where
  | tree (t : Elems)
  | err | panic | nothing

def parseROut (l : List String) : Option ROut :=
  match l with
  | ["err"] => some .err
  | ["panic"] => some .panic
  | ["-"] => some .nothing
  | "ok" :: rest => (parseTree rest).map fun p => .tree p.1
  | _ => none

/-- one call: property first, then the model. Returns a short signature or the failure line. -/
def judge (tsTok : String) (ts : Syntax) (dict : Tag → Option VR) (tree : Elems) (call : String)
    (w : WOut) (r : ROut) : Except String String :=
  let strat := if call == "no-change" then Strategy.noChange else Strategy.setUndefined
  let deflatedTs := tsTok == "3"
  let model := writeDataset ts strat tree
  match w with
  | .panic => .error s!"PROP-FAIL class=write-panic call={call}"
  | .err => .error s!"PROP-FAIL class=write-failed call={call}"
  | .bytes raw inf =>
    -- the data set bytes the reader of this syntax sees
    let seen : Option Bytes := if deflatedTs then inf else some raw
    let modelBytesMatch := match model with
      | .ok mb => seen == some mb || (deflatedTs && raw == mb)
      | .error _ => false
    let fail (cls detail : String) : Except String Unit := .error s!"PROP-FAIL class={cls} call={call} {detail}"
    -- classifiers of recorded findings
    let notDeflated := deflatedTs && call != "default" && (match model with | .ok mb => raw == mb | _ => false)
        && !(raw.isEmpty)
    let rtResult : Except String Unit :=
      match r with
      | .tree t' =>
        if elemsRt true ts dict tree t' then .ok ()
        else if ts.bigEndian && elemsRt false ts dict tree t' then
          fail "ow-bytes-swapped-big-endian" "bytes held as U8 under a word VR are written unswapped in Big Endian and come back pairwise swapped"
        else if notDeflated then fail "deflated-options-api-not-deflated" "the options API wrote a plain Explicit VR LE stream"
        else if elemsRt true ts dict (elemsDropEmptyFrags tree) t' then
          fail "empty-fragment-dropped" "a zero-length pixel fragment is missing after reading"
        else fail "roundtrip-mismatch" ""
      | .nothing => fail "write-failed" ""
      | .panic => fail "read-panic" ""
      | .err =>
        if notDeflated then fail "deflated-options-api-not-deflated" "the options API wrote a plain Explicit VR LE stream; reading it as Deflated fails"
        else fail "read-failed" ""
    match rtResult with
    | .error m => .error m
    | .ok () =>
      -- model: bytes, then reader + builder on the real bytes
      if treeNonAscii tree && (match model with | .error _ => true | .ok _ => false) then .ok "u"
      else if !modelBytesMatch then
        .error s!"MODEL-DIFF call={call} write model={match model with | .ok mb => hexOf mb | .error _ => "err"} impl={hexOf (seen.getD raw)}"
      else
        match r, seen with
        | .tree t', some bs =>
          match readDataset ts dict bs with
          | .ok mt =>
            if elemsBeq (elemsNoTxt mt) (elemsNoTxt t') then .ok (if deflatedTs then "d" else "p")
            else .error s!"MODEL-DIFF call={call} read tree differs"
          | .error _ => .error s!"MODEL-DIFF call={call} model read fails, impl ok"
        | _, _ => .ok "x"

def handle (line : String) : String :=
  match splitBar (tokens line) with
  | ("rt" :: ts :: path :: "D" :: dict :: "T" :: treeToks) :: calls =>
    match tsOf4 ts, parseDict dict, parseTree treeToks with
    | some syn, some d, some (tree, _) =>
      let results := calls.map fun c => match c with
        | call :: w :: "R" :: r =>
          match parseWOut w, parseROut r with
          | some wo, some ro => some (judge ts syn (dictFn d) tree call wo ro)
          | _, _ => none
        | _ => none
      if results.length ≠ 3 ∨ results.any (·.isNone) then "BAD-LINE" else
      match results.filterMap (fun r => match r with | some (.error m) => some m | _ => none) with
      | m :: rest =>
        -- prefer an unclassified / non-recorded failure, then PROP-FAIL over MODEL-DIFF
        let all := m :: rest
        (all.find? fun x => x.startsWith "PROP-FAIL" && !(x.splitOn "class=deflated-options-api-not-deflated").length > 1
            && !(x.splitOn "class=empty-fragment-dropped").length > 1
            && !(x.splitOn "class=ow-bytes-swapped-big-endian").length > 1)
          |>.getD ((all.find? fun x => x.startsWith "PROP-FAIL").getD m)
      | [] =>
        let prims := elemsPrims tree
        let triv := if prims.isEmpty ∧ elemsSeqTags tree = [] ∧ !elemsHasPix tree then "trivial-" else ""
        s!"ok {triv}rt-{ts}-{path}-d{elemsDepth tree}-n{min prims.length 6}-px{elemsHasPix tree}-x{elemsHasExplicit tree}"
    | _, _, _ => "BAD-LINE"
  | ["refread", ts, "D", dict, "B", hx] :: [] =>
    -- the real reader rejected the independent reference encoding of a generated data set (sequences and
    -- items with explicit and undefined lengths mixed). If the reader model accepts it, it is a stream the
    -- real writer produces under NoChange (writer = reference encoder on canonical trees, `C02.writer_eq_ref`)
    -- which does not read back: a failing input of the round trip.
    match tsOf4 ts, parseDict dict, unhex hx with
    | some syn, some d, some bs =>
      match readDataset syn (dictFn d) bs with
      | .ok _ => s!"PROP-FAIL class=written-stream-not-readable the reader rejects a conforming stream with explicit/undefined lengths that the writer (NoChange) produces"
      | .error _ => "ok trivial-refread-rejected-by-model-too"
    | _, _, _ => "BAD-LINE"
  | _ => "BAD-LINE"

def main : IO Unit := Driver.run handle
