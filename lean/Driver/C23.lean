import DicomModel.Model.Util
import DicomModel.Model.Json
import DicomModel.Model.JsonWire
import Driver.Loop
open Dicom Dicom.Json Dicom.Json.Wire

def parseResJ : P (Outcome J)
  | "ok" :: r => (parseJ r).map fun (j, r') => (.ok j, r')
  | "err" :: r => some (.err, r)
  | "panic" :: r => some (.panic, r)
  | _ => none

/-- `ok <data set>` | `err` | `panic` | `na` (not applicable: treated as `err` with a flag) -/
def parseResDs : P (Outcome DataSet × Bool)
  | "ok" :: r => (parseDs r).map fun (d, r') => ((.ok d, true), r')
  | "err" :: r => some ((.err, true), r)
  | "panic" :: r => some ((.panic, true), r)
  | "na" :: r => some ((.err, false), r)
  | _ => none

def sameDs (a b : Outcome DataSet) : Bool :=
  match a, b with
  | .ok x, .ok y => beqDs x y
  | .err, .err => true
  | .panic, .panic => true
  | _, _ => false

def clsOf {α : Type} : Outcome α → String
  | .ok _ => "ok" | .err => "err" | .panic => "panic"

def showList {α : Type} (f : α → String) (l : List α) : String := "[" ++ ",".intercalate (l.map f) ++ "]"
def showPrim : Prim → String
  | .empty => "E"
  | .strs l => "S" ++ showList (fun s => "\"" ++ strOf s ++ "\"") l
  | .str s => "T\"" ++ strOf s ++ "\""
  | .tags l => "G" ++ showList toString l
  | .u8 l => "B" ++ showList toString l
  | .i16 l => "h" ++ showList toString l
  | .u16 l => "H" ++ showList toString l
  | .i32 l => "l" ++ showList toString l
  | .u32 l => "L" ++ showList toString l
  | .i64 l => "v" ++ showList toString l
  | .u64 l => "V" ++ showList toString l
  | .f32 l => "r" ++ showList toString l
  | .f64 l => "R" ++ showList toString l
  | .date l => "D" ++ showList (fun (a, _) => strOf a) l
  | .dateTime l => "M" ++ showList (fun (a, _) => strOf a) l
  | .time l => "I" ++ showList (fun (a, _) => strOf a) l

mutual
partial def showDs (ds : List Elem) : String := "(" ++ " ".intercalate (ds.map showElem) ++ ")"
partial def showElem : Elem → String
  | .prim t vr p => s!"{strOf (tagKey t)}:{strOf (vrName vr)}:{showPrim p}"
  | .seq t vr items => s!"{strOf (tagKey t)}:{strOf (vrName vr)}:[{" ".intercalate (items.map showDs)}]"
  | .pix t vr => s!"{strOf (tagKey t)}:{strOf (vrName vr)}:pix"
end

def showOutDs : Outcome DataSet → String
  | .ok d => "ok:" ++ showDs d
  | .err => "err"
  | .panic => "panic"

/-- data sets equal except for binary floats one ULP apart (serde_json's default text reader is
"best effort": finding `text-float-ulp`) -/
def nearNat (a b : Nat) : Bool := a == b || a + 1 == b || b + 1 == a

def nearPrim : Prim → Prim → Bool
  | .f64 a, .f64 b => a.length == b.length && (a.zip b).all fun (x, y) => nearNat x y
  | .f32 a, .f32 b => a.length == b.length && (a.zip b).all fun (x, y) => nearNat x y
  | .strs a, .strs b => a.length == b.length && (a.zip b).all fun (x, y) =>   -- DS from binary floats
      x == y || (match Flt.parse Flt.b64 x, Flt.parse Flt.b64 y with
        | some u, some v => nearNat u v
        | _, _ => false)
  | a, b => a == b

mutual
partial def nearElem : Elem → Elem → Bool
  | .prim t v p, .prim t' v' p' => t == t' && v == v' && nearPrim p p'
  | .seq t v is, .seq t' v' is' => t == t' && v == v' && is.length == is'.length &&
      (is.zip is').all fun (a, b) => nearDs a b
  | .pix t v, .pix t' v' => t == t' && v == v'
  | _, _ => false
partial def nearDs (a b : List Elem) : Bool :=
  a.length == b.length && (a.zip b).all fun (x, y) => nearElem x y
end

mutual
partial def depthDs (ds : List Elem) : Nat := (ds.map depthElem).foldl max 0
partial def depthElem : Elem → Nat
  | .seq _ _ items => 1 + (items.map depthDs).foldl max 0
  | _ => 0
end

mutual
partial def flagsDs (ds : List Elem) : List String := ds.flatMap flagsElem
partial def flagsElem : Elem → List String
  | .prim _ vr p =>
    let c := match serClass vr with
      | .strings => "S" | .person => "P" | .numbers => "N" | .binary => "B" | .sq => "Q"
    let extra : List String := match p with
      | .empty => ["empty"]
      | .f32 l => if l.any (fun x => !Flt.isFinite Flt.b32 x) then ["nonfinite"] else []
      | .f64 l => if l.any (fun x => !Flt.isFinite Flt.b64 x) then ["nonfinite"] else []
      | .i64 l => if l.any (fun i => !fitsI32 i) then ["big"] else []
      | .u64 l => if l.any (fun n => n > 2147483647) then ["big"] else []
      | .date _ => ["date"] | .dateTime _ => ["date"] | .time _ => ["date"]
      | .tags _ => ["tags"]
      | .str s => if trimEnd s != s then ["pad"] else []
      | .strs l => if l.any (fun s => trimEnd s != s) then ["pad"] else []
      | _ => []
    c :: extra
  | .seq _ _ items => "Q" :: items.flatMap flagsDs
  | .pix _ _ => ["pix"]
end

def dedupStr (l : List String) : List String :=
  l.foldl (fun acc s => if acc.contains s then acc else acc ++ [s]) []

/-- what made a JSON document fail / succeed, roughly (signature of `de` cases) -/
partial def docShape : J → String
  | .obj ms =>
    let nElem := ms.length
    let kinds := ms.map fun (_, v) => match v with
      | .obj fs => (fs.map fun (k, _) =>
          if k == kVr then "v" else if k == kValue then "V" else if k == kInline then "I"
          else if k == kBulk then "U" else "x")
        |> String.join
      | _ => "!"
    s!"{nElem}:" ++ ",".intercalate (kinds.take 3)
  | .arr _ => "arr"
  | _ => "scalar"

def fltCheck (toks : List String) : String :=
  let F32 := Flt.b32; let F64 := Flt.b64
  let showO : Option Nat → String := fun o => match o with | some n => toString n | none => "err"
  match toks with
  | ["w", b, r] => match b.toNat?, r.toNat? with
    | some b, some r =>
      -- (the payload of a NaN through `as f64` is not part of the model, as for the narrowing cast)
      if Flt.isNaN F32 b then "ok trivial-nan-cast" else
      if Flt.castFF F32 F64 b == r then "ok flt-widen" else s!"MODEL-DIFF f32->f64 model={Flt.castFF F32 F64 b} impl={r}"
    | _, _ => "BAD-LINE"
  | ["n", b, r] => match b.toNat?, r.toNat? with
    | some b, some r =>
      if Flt.isNaN F64 b then "ok trivial-nan-cast" else
      if Flt.castFF F64 F32 b == r then "ok flt-narrow" else s!"MODEL-DIFF f64->f32 model={Flt.castFF F64 F32 b} impl={r}"
    | _, _ => "BAD-LINE"
  | ["cu", n, r64, r32] => match n.toNat?, r64.toNat?, r32.toNat? with
    | some n, some a, some b =>
      if Flt.castNat F64 n == a && Flt.castNat F32 n == b then "ok flt-u64-cast"
      else s!"MODEL-DIFF u64 as float model={Flt.castNat F64 n},{Flt.castNat F32 n} impl={a},{b}"
    | _, _, _ => "BAD-LINE"
  | ["ci", n, r64, r32] => match intOf n, r64.toNat?, r32.toNat? with
    | some n, some a, some b =>
      if Flt.castInt F64 n == a && Flt.castInt F32 n == b then "ok flt-i64-cast"
      else s!"MODEL-DIFF i64 as float model={Flt.castInt F64 n},{Flt.castInt F32 n} impl={a},{b}"
    | _, _, _ => "BAD-LINE"
  | ["d64", b, s] => match b.toNat?, unhex s with
    | some b, some s => if Flt.display F64 b == s then "ok flt-display64"
      -- two shortest decimal strings at the same distance from the value (a tie of the shortest-digits
      -- algorithm): any of them that reads back to the same bits is a faithful print
      else if Flt.parse F64 s == some b && s.length == (Flt.display F64 b).length then "ok flt-display64-tie"
      else s!"MODEL-DIFF display f64 bits={b} model={strOf (Flt.display F64 b)} impl={strOf s}"
    | _, _ => "BAD-LINE"
  | ["d32", b, s] => match b.toNat?, unhex s with
    | some b, some s => if Flt.display F32 b == s then "ok flt-display32"
      else if Flt.parse F32 s == some b && s.length == (Flt.display F32 b).length then "ok flt-display32-tie"
      else s!"MODEL-DIFF display f32 bits={b} model={strOf (Flt.display F32 b)} impl={strOf s}"
    | _, _ => "BAD-LINE"
  | ["p", s, p32, p64, pi, pu, pu32] => match unhex s with
    | some s =>
      let m32 := showO (Flt.parse F32 s)
      let m64 := showO (Flt.parse F64 s)
      let mi := match parseSigned (-9223372036854775808) 9223372036854775807 s with
        | some i => toString i | none => "err"
      let mu := showO (parseUnsigned 18446744073709551615 s)
      let mu32 := showO (parseUnsigned 4294967295 s)
      if m32 != p32 then s!"MODEL-DIFF parse f32 {strOf s} model={m32} impl={p32}"
      else if m64 != p64 then s!"MODEL-DIFF parse f64 {strOf s} model={m64} impl={p64}"
      else if mi != pi then s!"MODEL-DIFF parse i64 {strOf s} model={mi} impl={pi}"
      else if mu != pu then s!"MODEL-DIFF parse u64 {strOf s} model={mu} impl={pu}"
      else if mu32 != pu32 then s!"MODEL-DIFF parse u32 {strOf s} model={mu32} impl={pu32}"
      else s!"ok flt-parse-{if p64 == "err" then "err" else "ok"}-{if pi == "err" then "noint" else "int"}"
    | none => "BAD-LINE"
  | _ => "BAD-LINE"

def handleRt (rest : List String) : String :=
  match parseDs rest with
  | none => "BAD-LINE"
  | some (ds, r1) =>
  match parseResJ r1 with
  | none => "BAD-LINE"
  | some (txt, r2) =>
  match parseResDs r2 with
  | none => "BAD-LINE"
  | some ((fs, _), r3) =>
  match parseResDs r3 with
  | some ((fv, _), []) =>
    if !ds.wf then "MODEL-DIFF data set of the implementation is not tag-sorted" else
    let typed := elemsTyped ds
    let noPix := elemsNoPix ds
    let expected : Outcome DataSet := .ok (normDs ds)
    -- the property: never a panic; in scope, both ways back give the normalised data set
    if clsOf fs == "panic" || clsOf fv == "panic" then
      s!"PROP-FAIL class=deserialise-panic from_str={clsOf fs} from_value={clsOf fv}"
    else if typed && noPix && !sameDs fv expected then
      s!"PROP-FAIL class=roundtrip-value expected={showOutDs expected} got={showOutDs fv}"
    else if typed && noPix && !sameDs fs expected then
      (match fs with
       | .ok got =>
         if nearDs got (normDs ds) then
           s!"PROP-FAIL class=text-float-ulp expected={showOutDs expected} got={showOutDs fs}"
         else s!"PROP-FAIL class=roundtrip-text expected={showOutDs expected} got={showOutDs fs}"
       | _ => s!"PROP-FAIL class=roundtrip-text expected={showOutDs expected} got={showOutDs fs}")
    else
      -- model against implementation
      let mj := toJson ds
      let mv : Outcome DataSet := match mj with
        | .ok j => fromValue j
        | _ => .err
      let ms : Outcome DataSet := match txt with
        | .ok j => fromStr j
        | _ => .err
      if !sameDs mv fv then s!"MODEL-DIFF from_value model={showOutDs mv} impl={showOutDs fv}"
      else if !sameDs ms fs then
        -- the text reader of serde_json may be an ULP off; the exact reader of the harness is not
        (match ms, fs with
         | .ok a, .ok b => if nearDs a b then
             s!"ok {if typed then "typed" else "illtyped"}-ulp" else
             s!"MODEL-DIFF from_str model={showOutDs ms} impl={showOutDs fs}"
         | _, _ => s!"MODEL-DIFF from_str model={showOutDs ms} impl={showOutDs fs}")
      else
        let fl := dedupStr (flagsDs ds)
        if ds.isEmpty then "ok trivial-empty"
        else s!"ok rt-{if typed then "typed" else "illtyped"}{if noPix then "" else "-pix"}-{clsOf fv}-d{depthDs ds}-{"".intercalate (fl.mergeSort (· ≤ ·))}"
  | _ => "BAD-LINE"

def handleDe (rest : List String) : String :=
  match parseJ rest with
  | none => "BAD-LINE"
  | some (j, r1) =>
  match parseResDs r1 with
  | none => "BAD-LINE"
  | some ((fs, _), r2) =>
  match parseResDs r2 with
  | some ((fv, haveV), []) =>
    if clsOf fs == "panic" || clsOf fv == "panic" then
      s!"PROP-FAIL class=deserialise-panic from_str={clsOf fs} from_value={clsOf fv} doc={showJ j}"
    else
      let ms := fromStr j
      let mv := fromValue (dedup j)
      if !sameDs ms fs then s!"MODEL-DIFF from_str doc={showJ j} model={showOutDs ms} impl={showOutDs fs}"
      else if haveV && !sameDs mv fv then
        s!"MODEL-DIFF from_value doc={showJ j} model={showOutDs mv} impl={showOutDs fv}"
      else s!"ok de-{clsOf fs}{if haveV && clsOf fv != clsOf fs then "-value-" ++ clsOf fv else ""}-{docShape j}"
  | _ => "BAD-LINE"

def handle (line : String) : String :=
  match tokens line with
  | "rt" :: rest => handleRt rest
  | "de" :: rest => handleDe rest
  | "flt" :: rest => fltCheck rest
  | _ => "BAD-LINE"

def main : IO Unit := Driver.run handle
