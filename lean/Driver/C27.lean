import DicomModel.Model.Util
import DicomModel.Model.Pdu
import DicomModel.Model.PduText
import DicomModel.Model.PduWire
import Driver.Loop
open Dicom Dicom.Pdu Dicom.Pdu.Text

/-- one receive call as logged by the harness: sizes of the reads served, result tokens -/
structure Call where
  reads : List Nat
  result : List String

def splitBar (ts : List String) : List (List String) :=
  let rec go : List String → List String → List (List String)
    | [], cur => [cur.reverse]
    | t :: r, cur => if t = "|" then cur.reverse :: go r [] else go r (t :: cur)
  (go ts []).drop 1

def parseCall (ts : List String) : Option Call :=
  match ts with
  | n :: rest =>
    match n.toNat? with
    | some n =>
      let sizes := (rest.take n).map String.toNat?
      if sizes.all Option.isSome ∧ sizes.length = n then
        some ⟨sizes.map (·.getD 0), rest.drop n⟩
      else none
    | none => none
  | [] => none

def parseCalls (ts : List String) : Option (List Call) :=
  (splitBar ts).mapM parseCall

/-- cut the stream into the chunks that the logged reads delivered -/
def cutStream : Bytes → List Nat → List Bytes
  | _, [] => []
  | s, n :: r => s.take n :: cutStream (s.drop n) r

def showRecv (inputs : List (List String)) : Except RecvErr (Pdu × Bytes × List Bytes) → List String
  | .ok (p, _, _) =>
    let t := showPdu p
    match inputs.findIdx? (· == t) with
    | some k => ["ok", s!"={k}"]
    | none => "ok" :: t
  | .error .closed => ["err:closed"]
  | .error (.pdu .panic) => ["panic"]
  | .error (.pdu _) => ["err:pdu"]

/-- run the model over the logged reads of one receiver; `none` = agreement -/
def compareCalls (mx : Nat) (strict : Bool) (inputs : List (List String)) :
    List Call → Bytes → List Bytes → Nat → Option String
  | [], _, _, _ => none
  | c :: cs, buf, chunks, k =>
    let r := receive mx strict buf chunks
    let shown := showRecv inputs r
    let used := match r with
      | .ok (_, _, rest) => chunks.length - rest.length
      | .error _ =>
        -- an error after reading: the model stops at the failing point of the script
        c.reads.length
    if shown ≠ c.result then some s!"call {k}: model={shown.take 8} impl={c.result.take 8}"
    else match r with
      | .ok (_, buf', rest) =>
        if used ≠ c.reads.length then
          some s!"call {k}: model needs {used} reads, implementation made {c.reads.length}"
        else compareCalls mx strict inputs cs buf' rest (k + 1)
      | .error _ => none

/-- sizes of `n` successive reads from the transport, and the transport afterwards -/
def readSizes (rooms : Nat → Nat) : Nat → Nat → List Bytes → List Nat
  | 0, _, _ => []
  | n + 1, k, chunks =>
    let r := readSome (rooms k) chunks
    r.1.length :: readSizes rooms n (k + 1) r.2

def showRecvW (inputs : List (List String)) : Except RecvErr (Pdu × Bytes × List Bytes × Nat) → List String
  | .ok (p, b, c, _) => showRecv inputs (.ok (p, b, c))
  | .error e => showRecv inputs (.error e)

/-- run the transport-level model (`receiveWire`) over the *scripted* segments with the given rooms;
each call must give the logged result, make as many reads, and deliver the same sizes -/
def compareWire (mx : Nat) (strict : Bool) (rooms : Nat → Nat) (inputs : List (List String)) :
    List Call → Nat → Bytes → List Bytes → Nat → Option String
  | [], _, _, _, _ => none
  | c :: cs, k, buf, chunks, i =>
    let r := receiveWire mx strict rooms k buf chunks
    let shown := showRecvW inputs r
    if shown ≠ c.result then some s!"call {i}: wire model={shown.take 8} impl={c.result.take 8}"
    else match r with
      | .ok (_, buf', rest, k') =>
        let sizes := readSizes rooms (k' - k) k chunks
        if sizes ≠ c.reads then some s!"call {i}: wire model reads {sizes} implementation {c.reads}"
        else compareWire mx strict rooms inputs cs k' buf' rest (i + 1)
      | .error _ => none

def okResults (cs : List Call) : List (List String) :=
  (cs.filter (fun c => c.result.headD "" == "ok")).map (·.result)

def handle (line : String) : String :=
  match sections (tokens line) with
  | ["seq", mx, strict, _cap, kind] :: rest =>
    let n := rest.length
    if n < 4 then "BAD-LINE" else
    let ptoks := rest.take (n - 4)
    match mx.toNat?, ptoks.mapM parsePdu, rest.drop (n - 4) with
    | some mx, some ps, [["stream", shex], "script" :: script, "sync" :: sync, "async" :: async] =>
      match unhex shex, script.mapM String.toNat?, parseCalls sync, parseCalls async with
      | some stream, some script, some syncCalls, some asyncCalls =>
        let strict := strict == "1"
        let validMx := minimumPduSize ≤ mx ∧ mx ≤ maximumPduSize
        -- is this case inside the property's quantifier? well-formed PDUs whose encodings make up
        -- the stream, a script that delivers all of it without a zero read, every PDU acceptable
        let encs := ps.map writePdu
        let encBytes := encs.map (fun | .ok b => b | .error _ => [])
        let inScope := validMx ∧ ps.all wfPdu ∧ encs.all (fun | .ok _ => true | .error _ => false) ∧
          encBytes.flatten = stream ∧ script.all (· > 0) ∧ script.sum = stream.length ∧
          encBytes.all (fun b => !strict || b.length - 6 ≤ mx)
        let expected := (ps.map normPdu).map showPdu
        let inputs := ptoks
        -- received PDUs, brought to normal form (the property's equality is up to the documented
        -- normalisation; `=k` names the tokens of input PDU k)
        let received (cs : List Call) : List (List String) :=
          (okResults cs).map fun r =>
            let toks := match r with
              | ["ok", ref] =>
                if ref.startsWith "=" then (inputs.getD ((ref.drop 1).toString.toNat?.getD 0) []) else r.drop 1
              | _ => r.drop 1
            match parsePdu toks with
            | some q => showPdu (normPdu q)
            | none => ["?"]
        -- 1. the property on the implementation's outputs
        let check (name : String) (cs : List Call) : Option String :=
          if !inScope then none
          else if received cs ≠ expected then
            some s!"PROP-FAIL class=sequence-mismatch {name}: received {(received cs).map (·.take 4)} expected {expected.map (·.take 4)}"
          else none
        match check "sync" syncCalls, check "async" asyncCalls with
        | some m, _ => m
        | _, some m => m
        | none, none =>
          -- 2. model against implementation, on the reads that each receiver actually made
          let run (name : String) (cs : List Call) : Option String :=
            let reads := cs.flatMap (·.reads)
            (compareCalls mx strict inputs cs [] (cutStream stream reads) 0).map (s!"{name} " ++ ·)
          -- 3. the transport-level models on the scripted segments: sync offers 8192 bytes per read,
          -- async offers what its buffer had (the logged size of each read is the room it offered)
          let segs := cutStream stream script
          let asyncReads := asyncCalls.flatMap (·.reads)
          let wireSync := (compareWire mx strict (fun _ => 8192) inputs syncCalls 0 [] segs 0).map ("sync " ++ ·)
          let wireAsync := (compareWire mx strict (fun k => asyncReads.getD k 1) inputs asyncCalls 0 [] segs 0).map ("async " ++ ·)
          match run "sync" syncCalls, run "async" asyncCalls, wireSync, wireAsync with
          | some m, _, _, _ => "MODEL-DIFF " ++ m
          | _, some m, _, _ => "MODEL-DIFF " ++ m
          | _, _, some m, _ => "MODEL-DIFF " ++ m
          | _, _, _, some m => "MODEL-DIFF " ++ m
          | none, none, none, none =>
            let nreads := script.length
            let segClass :=
              if nreads ≤ 1 then "one" else if script.all (· == 1) then "bytes"
              else if nreads < ps.length then "coalesced" else if nreads ≤ 2 * ps.length then "few" else "many"
            let last := (syncCalls.getLast?.map (·.result.headD "?")).getD "?"
            let resplit := if (syncCalls.flatMap (·.reads)) == (asyncCalls.flatMap (·.reads)) then "" else "-resplit"
            s!"ok {kind}-n{ps.length}-{segClass}-{sizeClass stream.length}-{if inScope then "in" else "out"}-{last}{resplit}"
      | _, _, _, _ => "BAD-LINE"
    | _, _, _ => "BAD-LINE"
  | _ => "BAD-LINE"

def main : IO Unit := Driver.run handle
