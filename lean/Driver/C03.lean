import DicomModel.Model.Util
import DicomModel.Model.Bytes
import DicomModel.Model.Header
import Driver.Loop
open Dicom

/-! Driver for C03: oracle = PS3.5 §7.1 layout written here directly (`specHeader`), independent of
the generated tables; then comparison with the model (which uses the generated tables). -/

def tsOf (s : String) : Option Syntax :=
  if s == "0" then some .implicitLE else if s == "1" then some .explicitLE
  else if s == "2" then some .explicitBE else none

/-- PS3.5 layout, straight from the standard's text: code = the two ASCII letters of the VR name -/
def specCode (v : VR) : Bytes := v.name.toList.map Char.toNat

def specHeader (ts : Syntax) (g e : Nat) (v : VR) (len : Nat) : Option Bytes :=
  match ts with
  | .implicitLE => some (le16 g ++ le16 e ++ le32 len)
  | .explicitLE =>
    if VR.ps35Short.contains v then (if len > 0xFFFF then none else some (le16 g ++ le16 e ++ specCode v ++ le16 len))
    else some (le16 g ++ le16 e ++ specCode v ++ [0, 0] ++ le32 len)
  | .explicitBE =>
    if VR.ps35Short.contains v then (if len > 0xFFFF then none else some (be16 g ++ be16 e ++ specCode v ++ be16 len))
    else some (be16 g ++ be16 e ++ specCode v ++ [0, 0] ++ be32 len)

def showDec (r : Option (ElemHeader × Nat × Bytes)) (total : Nat) : List String :=
  match r with
  | none => ["err:eof"]
  | some (h, n, rest) =>
    ["ok", toString h.tag.group, toString h.tag.elem, h.vr.name, toString h.len, toString n,
      toString (total - rest.length)]

def dictOf (s : String) : Tag → Option VR := fun _ => VR.ofName? s

def lenClass (n : Nat) : String :=
  if n = 0 then "0" else if n < 0xFFFF then "small" else if n = 0xFFFF then "ffff"
  else if n = 0xFFFFFFFF then "undef" else "big"

def showItem (r : Except ItemErr (ItemHeader × Bytes)) (total : Nat) : List String :=
  match r with
  | .ok (.item l, rest) => ["ok", "item", toString l, toString (total - rest.length)]
  | .ok (.itemDelim, rest) => ["ok", "idelim", "0", toString (total - rest.length)]
  | .ok (.seqDelim, rest) => ["ok", "sdelim", "0", toString (total - rest.length)]
  | .error .eof => ["err:eof"]
  | .error (.unexpectedTag _) => ["err:tag"]
  | .error (.delimiterLength _) => ["err:dlen"]

def splitBar (l : List String) : List (List String) :=
  l.foldr (fun t acc => if t == "|" then [] :: acc else match acc with
    | a :: r => (t :: a) :: r
    | [] => [[t]]) [[]]

def trailer : Bytes := [0xa1, 0xb2, 0xc3, 0xd4, 0xe5, 0xf6]

def shortTable (k : String) : Option (List VR) :=
  if k == "0" then some Gen.encLeShort else if k == "1" then some Gen.encBeShort
  else if k == "2" then some Gen.decLeShort else if k == "3" then some Gen.decBeShort
  else if k == "4" then some Gen.adaptiveShort else none

def handle (line : String) : String :=
  match tokens line with
  | "hdr" :: ts :: g :: e :: vr :: len :: dv :: rest =>
    match tsOf ts, g.toNat?, e.toNat?, VR.ofName? vr, len.toNat?, splitBar rest with
    | some ts, some g, some e, some v, some len, [enc, dec] =>
      -- 1. the property on the implementation's output
      let spec := specHeader ts g e v len
      let sig := s!"hdr-{ts.explicit}-{ts.bigEndian}-{v.name}-{lenClass len}"
      match spec, enc with
      | none, ["err:toolong"] => s!"ok {sig}-rejected"
      | none, _ => s!"PROP-FAIL class=short-overflow-not-rejected spec=reject impl={enc}"
      | some sb, ["ok", hx, cnt] =>
        if hx ≠ hexOf sb then s!"PROP-FAIL class=header-layout spec={hexOf sb} impl={hx}"
        else if cnt ≠ toString sb.length then s!"PROP-FAIL class=header-count spec={sb.length} impl={cnt}"
        else
          -- decoding the header must give back tag, VR (dictionary VR in implicit), length, exact count
          let inScope := ts.explicit = false ∨ g ≠ 0xFFFE
          let expVr := if ts.explicit then v else resolveImplicitVr (dictOf dv) ⟨g, e⟩
          let expDec := ["ok", toString g, toString e, expVr.name, toString len, toString sb.length, toString sb.length]
          if inScope ∧ dec ≠ expDec then s!"PROP-FAIL class=header-decode spec={expDec} impl={dec}"
          else
          -- 2. the model
          match encodeHeader ts ⟨⟨g, e⟩, v, len⟩ with
          | .ok (mb, mn) =>
            if hexOf mb ≠ hx ∨ toString mn ≠ cnt then s!"MODEL-DIFF enc model={hexOf mb},{mn} impl={hx},{cnt}"
            else
              let md := showDec (decodeHeader ts (dictOf dv) (mb ++ trailer)) (mb.length + 6)
              if md ≠ dec then s!"MODEL-DIFF dec model={md} impl={dec}"
              else s!"ok {sig}{if inScope then "" else "-group-fffe"}"
          | .error _ => s!"MODEL-DIFF enc model=err impl={enc}"
      | some sb, _ => s!"PROP-FAIL class=header-layout spec={hexOf sb} impl={enc}"
    | _, _, _, _, _, _ => "BAD-LINE"
  | "vrrow" :: a :: row =>
    match a.toNat? with
    | some a =>
      if row.length ≠ 256 then "BAD-LINE" else
      let bad := (List.range 256).zip row |>.filterMap fun (b, r) =>
        -- property: recognised iff one of the defined codes (code = name of the VR)
        let spec : Option VR := VR.ctors.find? fun v => specCode v == [a, b]
        let specS := match spec with | some v => v.name | none => "-"
        if r ≠ specS then some s!"PROP-FAIL class=vr-code code={a},{b} spec={specS} impl={r}"
        else
          let m := match VR.fromBinary a b with | some v => v.name | none => "-"
          if m ≠ r then some s!"MODEL-DIFF from_binary code={a},{b} model={m} impl={r}" else none
      match bad with
      | x :: _ => x
      | [] => if (row.any (· ≠ "-")) then s!"ok vrrow-with-codes-{a}" else "ok vrrow-none"
    | none => "BAD-LINE"
  | ["vrinfo", vr, strHex, b0, b1, dispHex, back] =>
    match VR.ofName? vr, unhex strHex, unhex dispHex with
    | some v, some sb, some db =>
      let code := specCode v
      if sb ≠ code ∨ db ≠ code ∨ [b0, b1] ≠ code.map toString ∨ back ≠ v.name then
        s!"PROP-FAIL class=vr-table vr={v.name} to_string={strHex} to_bytes={b0},{b1} display={dispHex} from_str={back}"
      else if v.toStringBytes? ≠ some sb then s!"MODEL-DIFF to_string vr={v.name}"
      else if (v.toBytes?.map fun p => [toString p.1, toString p.2]) ≠ some [b0, b1] then s!"MODEL-DIFF to_bytes vr={v.name}"
      else s!"ok vrinfo-{v.name}"
    | _, _, _ => "BAD-LINE"
  | ["short", k, vr, obs] =>
    match shortTable k, VR.ofName? vr with
    | some tbl, some v =>
      let spec := if VR.ps35Short.contains v then "1" else "0"
      if obs ≠ spec then s!"PROP-FAIL class=short-class codec={k} vr={v.name} spec={spec} impl={obs}"
      else if (if tbl.contains v then "1" else "0") ≠ obs then
        s!"MODEL-DIFF translated-table codec={k} vr={v.name} table={tbl.contains v} compiled={obs}"
      else s!"ok short-{k}-{obs}"
    | _, _ => "BAD-LINE"
  | "ienc" :: ts :: len :: a :: b :: c :: rest =>
    match tsOf ts, len.toNat?, splitBar rest with
    | some ts, some len, [[], da, db, dc] =>
      let be := ts.bigEndian
      let e16 := fun n => if be then be16 n else le16 n
      let e32 := fun n => if be then be32 n else le32 n
      let sa := e16 0xFFFE ++ e16 0xE000 ++ e32 len
      let sb := e16 0xFFFE ++ e16 0xE00D ++ [0, 0, 0, 0]
      let sc := e16 0xFFFE ++ e16 0xE0DD ++ [0, 0, 0, 0]
      if [a, b, c] ≠ [hexOf sa, hexOf sb, hexOf sc] then
        s!"PROP-FAIL class=item-layout spec={[hexOf sa, hexOf sb, hexOf sc]} impl={[a, b, c]}"
      else if da ≠ ["ok", "item", toString len, "8"] ∨ db ≠ ["ok", "idelim", "0", "8"] ∨ dc ≠ ["ok", "sdelim", "0", "8"] then
        s!"PROP-FAIL class=item-decode impl={[da, db, dc]}"
      else if [hexOf (encodeItemHeader be len), hexOf (encodeItemDelimiter be), hexOf (encodeSeqDelimiter be)] ≠ [a, b, c] then
        "MODEL-DIFF item encode"
      else if showItem (decodeItemHeader be (sa ++ trailer)) 14 ≠ da ∨ showItem (decodeItemHeader be (sb ++ trailer)) 14 ≠ db
          ∨ showItem (decodeItemHeader be (sc ++ trailer)) 14 ≠ dc then "MODEL-DIFF item decode"
      else s!"ok ienc-{be}-{lenClass len}"
    | _, _, _ => "BAD-LINE"
  | "raw" :: ts :: hx :: dv :: res =>
    match unhex hx with
    | some bs =>
      let m :=
        if ts == "3" then some (decodeExplicitWith Gen.adaptiveShort false bs)
        else (tsOf ts).map fun t => decodeHeader t (dictOf dv) bs
      match m with
      | some r =>
        let md := showDec r bs.length
        if md ≠ res then s!"MODEL-DIFF raw model={md} impl={res}"
        else s!"ok raw-{ts}-{md.head!}-{if bs.length < 4 then "tiny" else if bs.length < 12 then "short" else "full"}-{md.getD 3 "-"}-{md.getD 5 "-"}"
      | none => "BAD-LINE"
    | none => "BAD-LINE"
  | "idec" :: ts :: hx :: res =>
    match unhex hx with
    | some bs =>
      let be := ts == "2"
      let md := showItem (decodeItemHeader be bs) bs.length
      if md ≠ res then s!"MODEL-DIFF idec model={md} impl={res}"
      else s!"ok idec-{ts}-{md.head!}-{md.getD 1 "-"}"
    | none => "BAD-LINE"
  | _ => "BAD-LINE"

def main : IO Unit := Driver.run handle
