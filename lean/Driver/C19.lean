import DicomModel.Model.Util
import DicomModel.Model.Transcode
import Driver.Loop
open Dicom Dicom.Encap Dicom.Transcode

/-! Driver for C19: the statement itself is the oracle (pixel data after the round trip is byte
identical, attributes consistent); then the model of `DicomModel.Model.Transcode` is compared. -/

def eleUid : String := "1.2.840.10008.1.2.1"

def uidNum (uid : String) : Nat :=
  if uid == "1.2.840.10008.1.2" then 0
  else if uid == eleUid then 1
  else if uid == "1.2.840.10008.1.2.2" then 2
  else if uid == "1.2.840.10008.1.2.1.99" then 3
  else if uid == "1.2.840.10008.1.2.4.95" then 4
  else if uid == "1.2.840.10008.1.2.4.205" then 5
  else if uid == "1.2.840.10008.1.2.1.98" then 98
  else if uid == "1.2.840.10008.1.2.8.1" then 81
  else 1000 + uid.length

def uidName (uid : String) : String :=
  if uid == "1.2.840.10008.1.2" then "ile"
  else if uid == eleUid then "ele"
  else if uid == "1.2.840.10008.1.2.2" then "ebe"
  else if uid == "1.2.840.10008.1.2.1.99" then "deflated-ele"
  else if uid == "1.2.840.10008.1.2.4.95" then "jpip-deflate"
  else if uid == "1.2.840.10008.1.2.4.205" then "jpip-htj2k-deflate"
  else if uid == "1.2.840.10008.1.2.1.98" then "uncompressed"
  else if uid == "1.2.840.10008.1.2.8.1" then "deflated-frame"
  else uid

def parseCsv (s : String) : Option (List Nat) :=
  if s == "-" then some [] else (s.splitOn ",").mapM String.toNat?

def parseOptNat (s : String) : Option (Option Nat) :=
  if s == "none" then some none else s.toNat?.map some

inductive Hop where
  | nat (len : Nat)
  | enc (lens : List Nat)
  | other

structure Final where
  ts : String
  rows : Option Nat
  cols : Option Nat
  spp : Option Nat
  bits : Option Nat
  nf : Option Nat
  tl : Option Nat
  px : Bytes

inductive Res where
  | fail (what : String)
  | ok (h : Hop) (f : Final)

/-- parse one result, return it with the remaining tokens -/
def parseRes : List String → Option (Res × List String)
  | "err1" :: r => some (.fail "err1", r)
  | "panic" :: r => some (.fail "panic", r)
  | "werr" :: r => some (.fail "werr", r)
  | "rerr" :: r => some (.fail "rerr", r)
  | hk :: hv :: rest =>
    let hop : Option Hop :=
      if hk == "nat" then hv.toNat?.map .nat
      else if hk == "enc" then (parseCsv hv).map .enc
      else none
    match hop, rest with
    | none, _ => none
    | some _, "err2" :: r => some (.fail "err2", r)
    | some h, "ok" :: ts :: _vr :: rows :: cols :: spp :: bits :: nf :: tl :: px :: r =>
      match parseOptNat rows, parseOptNat cols, parseOptNat spp, parseOptNat bits, parseOptNat nf,
            parseOptNat tl, unhex px with
      | some rows, some cols, some spp, some bits, some nf, some tl, some px =>
        some (.ok h ⟨ts, rows, cols, spp, bits, nf, tl, px⟩, r)
      | _, _, _, _, _, _, _ => none
    | some _, w :: r => if w == "nopixel" ∨ w == "notnative" then some (.fail w, r) else none
    | _, _ => none
  | _ => none

/-- what a reader makes of 8-bit samples that were written as they are under VR OW in a big endian
data set: every 16-bit word is byte-swapped (the value was padded to even length first) -/
def swapPairs : Bytes → Bytes
  | a :: b :: r => b :: a :: swapPairs r
  | r => r

/-- a lossless stand-in codec for the model: length prefix, so that a pad byte is ignored -/
def prefEnc (x : Bytes) : Bytes := le32 x.length ++ x
def prefDec (y : Bytes) : Option Bytes :=
  match rdLe32 y with
  | some (n, r) => if n ≤ r.length then some (r.take n) else none
  | none => none

/-- the statement, on one round-trip result. `via` names the path (mem/file). -/
def oracle (via target : String) (rows cols spp bits frames : Nat) (attr : Bool) (data0 : Bytes)
    (swapped : Bool) (r : Res) : Option String :=
  let data := if swapped then swapPairs (if data0.length % 2 = 1 then data0 ++ [0] else data0) else data0
  match r with
  | .fail w => some s!"class=roundtrip-{w} {via} target={target}"
  | .ok _ f =>
    if f.ts ≠ eleUid then some s!"class=not-explicit-le {via} target={target} ts={f.ts}" else
    let n := if swapped then data.length else data0.length
    let extra := f.px.drop n
    if f.px.take n ≠ data ∨ !(extra = [] ∨ (via == "file" ∧ n % 2 = 1 ∧ extra = [0])) then
      some s!"class=pixel-data-differs {via} target={target} want={hexOf data} got={hexOf f.px}" else
    if f.rows ≠ some rows ∨ f.cols ≠ some cols ∨ f.spp ≠ some spp ∨ f.bits ≠ some bits then
      some s!"class=attrs-changed {via} target={target}" else
    let nfOk := if attr then f.nf = some frames else (f.nf = none ∨ f.nf = some 1)
    if !nfOk ∨ rows * cols * spp * (bits / 8) * (f.nf.getD 1) ≠ data0.length then
      some s!"class=attrs-inconsistent {via} target={target} frames={f.nf} length={n}" else
    none

def cntClass (n : Nat) : String :=
  if n = 0 then "0" else if n = 1 then "1" else if n ≤ 4 then "few" else "many"

def handle (line : String) : String :=
  match tokens line with
  | "rt" :: uid :: cls :: src :: rows :: cols :: spp :: bits :: frames :: attr :: planar :: ob :: data :: "=>" :: "mem" :: rest =>
    match rows.toNat?, cols.toNat?, spp.toNat?, bits.toNat?, frames.toNat?, attr.toNat?, unhex data with
    | some rows, some cols, some spp, some bits, some frames, some attr, some data =>
      match parseRes rest with
      | some (mem, "file" :: rest2) =>
        match parseRes rest2 with
        | some (file, []) =>
          let attrB := attr = 1
          let target := uidName uid
          -- 1. the statement
          -- (8-bit samples held as bytes under VR OW used to come back word-swapped through an Explicit VR
          -- Big Endian file; repaired in the data set writer: the identity is demanded there too)
          let beOw8 := false
          match oracle "mem" target rows cols spp bits frames attrB data false mem with
          | some e => s!"PROP-FAIL {e}"
          | none =>
          match oracle "file" target rows cols spp bits frames attrB data beOw8 file with
          | some e => s!"PROP-FAIL {e}"
          | none =>
          -- 2. the model
          let srcUid := if src == "ile" then "1.2.840.10008.1.2" else if src == "ele" then eleUid else "1.2.840.10008.1.2.2"
          let ele : Ts := ⟨1, .native⟩
          let tgt : Ts := ⟨uidNum uid,
            if cls == "enc" then
              (if target == "uncompressed" then .encapsulated .uncompressed true true
               else .encapsulated (.perFragment prefEnc prefDec) true true)
            else .native⟩
          let o : Obj := ⟨⟨uidNum srcUid, .native⟩, rows, cols, spp, bits,
            if attrB then some frames else none, .native data, none⟩
          match transcode o tgt ele with
          | none => s!"MODEL-DIFF {target} model fails on the first hop"
          | some o1 =>
            match transcode o1 ele ele with
            | none => s!"MODEL-DIFF {target} model fails on the way back"
            | some o2 =>
              match mem, file with
              | .ok hm fm, .ok hf ff =>
                let hopOk (h : Hop) : Bool := match o1.pixel, h with
                  | .native d, .nat l => l = d.length ∨ (d.length % 2 = 1 ∧ l = d.length + 1)
                  | .encap _ fr, .enc ls =>
                    if target == "uncompressed" then ls = fr.map List.length else ls.length = fr.length
                  | _, _ => false
                if !hopOk hm ∨ !hopOk hf then s!"MODEL-DIFF {target} intermediate pixel data shape" else
                match o2.pixel with
                | .encap .. => s!"MODEL-DIFF {target} model result is encapsulated"
                | .native d2 =>
                  if fm.px ≠ d2 then s!"MODEL-DIFF {target} mem pixel data model={hexOf d2} impl={hexOf fm.px}" else
                  if !beOw8 ∧ ff.px.take d2.length ≠ d2 then s!"MODEL-DIFF {target} file pixel data model={hexOf d2} impl={hexOf ff.px}" else
                  if fm.nf ≠ o2.nframes ∨ ff.nf ≠ o2.nframes then
                    s!"MODEL-DIFF {target} NumberOfFrames model={o2.nframes} impl={fm.nf}/{ff.nf}" else
                  if (target == "uncompressed" ∨ cls == "nat") ∧ (fm.tl ≠ o2.totalLength ∨ ff.tl ≠ o2.totalLength) then
                    s!"MODEL-DIFF {target} total length model={o2.totalLength} impl={fm.tl}/{ff.tl}" else
                  let fsz := rows * cols * spp * (bits / 8)
                  s!"ok rt-{target}-{src}-b{bits}-s{spp}p{planar}-f{cntClass frames}-{if fsz % 2 = 1 then "oddframe" else "evenframe"}-{if data.length % 2 = 1 then "oddtotal" else "eventotal"}-attr{attr}-{if ff.px.length = data.length then "filesame" else "filepadded"}{if target == "ebe" ∧ bits = 8 ∧ ob == "0" then "-ow8" else ""}{if fm.tl.isSome then "-staletotal" else ""}"
              | _, _ => "MODEL-DIFF unreachable"
        | _ => "BAD-LINE"
      | _ => "BAD-LINE"
    | _, _, _, _, _, _, _ => "BAD-LINE"
  | "dec" :: uid :: rows :: cols :: spp :: bits :: frames :: attr :: withTable :: data :: "=>" :: rest =>
    match rows.toNat?, cols.toNat?, spp.toNat?, bits.toNat?, frames.toNat?, attr.toNat?, unhex data with
    | some rows, some cols, some spp, some bits, some frames, some attr, some data =>
      let target := uidName uid
      let attrB := attr = 1
      let res : Option Res := match rest with
        | ["err"] => some (.fail "err")
        | ["panic"] => some (.fail "panic")
        | _ => match parseRes ("nat" :: "0" :: rest) with
          | some (r, []) => some r
          | _ => none
      match res with
      | none => "BAD-LINE"
      | some r =>
        match oracle "mem" s!"from-{target}" rows cols spp bits frames attrB data false r with
        | some e => s!"PROP-FAIL {e}"
        | none =>
          -- the model decodes its own encoding of the same frames
          let fsz := rows * cols * spp * (bits / 8)
          let a : Adapter := if target == "uncompressed" then .uncompressed else .perFragment prefEnc prefDec
          let frs := (List.range frames).map fun f => padEven ((match a with
            | .uncompressed => id
            | .perFragment e _ => e) ((data.drop (fsz * f)).take fsz))
          let table := if withTable == "1" then prefixOffsets 0 (frs.map fun f => [f]) else []
          let o : Obj := ⟨⟨uidNum uid, .encapsulated a true true⟩, rows, cols, spp, bits,
            if attrB then some frames else none, .encap table frs, none⟩
          match transcode o ⟨1, .native⟩ ⟨1, .native⟩, r with
          | some o2, .ok _ f =>
            if o2.pixel ≠ .native f.px then s!"MODEL-DIFF dec {target} pixel data impl={hexOf f.px}" else
            if o2.nframes ≠ f.nf then s!"MODEL-DIFF dec {target} NumberOfFrames" else
            s!"ok dec-{target}-b{bits}-s{spp}-f{cntClass frames}-{if fsz % 2 = 1 then "oddframe" else "evenframe"}-attr{attr}-table{withTable}"
          | _, _ => s!"MODEL-DIFF dec {target} model fails"
    | _, _, _, _, _, _, _ => "BAD-LINE"
  | _ => "BAD-LINE"

def main : IO Unit := Driver.run handle
