import DicomModel.Model.Util
import DicomModel.Model.Writer
import DicomModel.Model.Valid
import DicomModel.Model.Charset
import Driver.Loop
import Driver.Tree
open Dicom Driver

/-! Driver for C04. Oracle (always first): the independent checker `Valid.parsePS35` on the real bytes,
the padding byte of every primitive value, the reported byte counts. Then the model comparison. -/

def tsOf4 (s : String) : Option Syntax :=
  if s == "0" then some .implicitLE else if s == "1" || s == "3" then some .explicitLE
  else if s == "2" then some .explicitBE else none

def cfgOf (ts : Syntax) (seqTags : List Tag) : Valid.Cfg :=
  { explicit := ts.explicit, bigEndian := ts.bigEndian, isSeq := fun g e => seqTags.contains ⟨g, e⟩ }

/-- unpadded value bytes as PS3.5 prescribes them for the value (text joined by backslash, binary in
the syntax's byte order, numbers under DS/IS as decimal text) -/
def rawValue (be : Bool) (vr : VR) (v : PValue) : Bytes :=
  match v with
  | .str s => s
  | .strs l => joinBackslash l
  | _ =>
    if vr = .DS ∨ vr = .IS then (v.numText?).getD [] else (encodePrimitive be (owWords vr v)).1

/-- padding rule of the property: odd-length values are padded with the VR-specific byte
(NUL for UI and binary VRs, space for text VRs), even ones are not padded -/
def padOk (be : Bool) (vr : VR) (v : PValue) (encoded : Bytes) : Bool :=
  let raw := rawValue be vr v
  if raw.length % 2 = 1 then encoded == raw ++ [Valid.specPad vr] else encoded == raw

def checkPrims (be : Bool) : List (Tag × VR × PValue) → List Valid.PVal → Option String
  | [], [] => none
  | (t, vr, v) :: r, p :: q =>
    if t.group ≠ p.group ∨ t.elem ≠ p.elem then some s!"class=element-order expected={t.group},{t.elem} found={p.group},{p.elem}"
    else if !padOk be vr v p.value then
      some s!"class=padding tag={t.group},{t.elem} vr={vr.name} raw={hexOf (rawValue be vr v)} encoded={hexOf p.value}"
    else checkPrims be r q
  | _, _ => some "class=element-count"

/-- one written output `ok:<raw>:<inflated|x>` / `err` / `panic` -/
inductive Out where
  | bytes (raw : Bytes) (inflated : Option Bytes)
  | err | panic

def parseOut (s : String) : Option Out :=
  if s == "err" then some .err else if s == "panic" then some .panic else
  match s.splitOn ":" with
  | ["ok", r, i] =>
    match unhex r with
    | some rb => if i == "x" then some (.bytes rb none) else (unhex i).map fun ib => .bytes rb (some ib)
    | none => none
  | _ => none

/-- verdict for one output; `mustDeflate`: the API is documented to apply the deflate adapter -/
def judge (ts : Syntax) (deflated : Bool) (strat : Strategy) (tree : Elems) (o : Out) (label : String) : Except String String :=
  let cfg := cfgOf ts (elemsSeqTags tree)
  let model := writeDataset ts strat tree
  match o with
  | .panic => .error s!"PROP-FAIL class=write-panic call={label}"
  | .err =>
    match model with
    | .error _ => .ok "werr"
    | .ok _ => .error s!"MODEL-DIFF call={label} impl=err model=ok"
  | .bytes raw inf =>
    -- which byte string is the data set: the inflated one if it is there and valid, else the raw one
    let candidates : List (String × Bytes) :=
      (match inf with | some i => [("d", i)] | none => []) ++ [(if deflated then "plain" else "p", raw)]
    match candidates.find? fun c => Valid.validPS35 cfg c.2 with
    | none => .error s!"PROP-FAIL class=invalid-structure call={label} bytes={hexOf raw}"
    | some (kind, bs) =>
      match Valid.parsePS35 cfg bs with
      | none => .error s!"PROP-FAIL class=invalid-structure call={label}"
      | some vals =>
        match checkPrims ts.bigEndian (elemsPrims tree) vals with
        | some msg => .error s!"PROP-FAIL {msg} call={label}"
        | none =>
          match model with
          | .ok mb => if mb = bs then .ok kind else .error s!"MODEL-DIFF call={label} model={hexOf mb} impl={hexOf bs}"
          | .error _ => if treeNonAscii tree then .ok kind else .error s!"MODEL-DIFF call={label} model=err impl=ok"

def parseOp (ts : Syntax) (e : Enc) (op : String) (arg : Option String) : Option (Except WErr Enc) :=
  match op.splitOn ":" with
  | ["pe", tag, vr, len] =>
    match parseTag8 tag, VR.ofName? vr, len.toNat?, arg.bind parseValue with
    | some t, some v, some l, some pv => some (e.encodePrimitiveElement ⟨t, v, l⟩ pv)
    | _, _, _, _ => none
  | ["eh", tag, vr, len] =>
    match parseTag8 tag, VR.ofName? vr, len.toNat? with
    | some t, some v, some l => some (e.elementHeader ⟨t, v, l⟩)
    | _, _, _ => none
  | ["ih", len] => len.toNat?.map fun l => .ok (e.itemHeader l)
  | ["id"] => some (.ok e.itemDelimiter)
  | ["sd"] => some (.ok e.seqDelimiter)
  | ["wb", h] => (unhex h).map fun b => .ok (e.writeBytes b)
  | ["wr", h] => (unhex h).map fun b => .ok (e.writeRaw b)
  | ["ot", t] =>
    (if t == "-" then some [] else allSome ((splitComma t).map String.toNat?)).map fun l => .ok (e.offsetTable l)
  | _ => let _ := ts; none

/-- run the op list on the model encoder; stops at the first error like the harness does -/
partial def runOps (ts : Syntax) (e : Enc) : List String → Option (Enc × Bool)
  | [] => some (e, true)
  | op :: rest =>
    let isPe := op.startsWith "pe:"
    let (arg, rest') := if isPe then (rest.head?, rest.drop 1) else (none, rest)
    match parseOp ts e op arg with
    | none => none
    | some (.ok e') => runOps ts e' rest'
    | some (.error _) => some (e, false)

/-! ### `cstxt`: text elements under a Specific Character Set other than the default one -/

/-- the multi-byte codecs of the `encoding` crate are not evaluated here (the generator does not use them) -/
def noExtCodec : Charset.Gen.Cs → Charset.Codec := fun _ => ⟨fun _ => none, fun _ => []⟩

def parseCsElem (tok : String) : Option (Tag × Charset.Elem) :=
  match tok.splitOn ":" with
  | [tag, vr, form, vals] =>
    match parseTag8 tag, VR.ofName? vr with
    | some t, some v =>
      let comps := allSome ((if vals == "-" then [""] else vals.splitOn ",").map fun h =>
        if h == "-" || h.isEmpty then some [] else (unhexStr h).map (·.map Char.toNat))
      match comps with
      | some cs =>
        if form == "s" then some (t, ⟨t.group * 65536 + t.elem, v, .str, cs⟩)
        else if form == "m" then some (t, ⟨t.group * 65536 + t.elem, v, .strs, cs⟩) else none
      | none => none
    | _, _ => none
  | _ => none

def handleCsTxt (k csHex : String) (rest : List String) : String :=
  let (elToks, res) := splitAt "R" ((rest.dropWhile (· ≠ "E")).drop 1)
  match tsOf4 k, (unhexStr csHex).bind (fun n => Charset.fromCode (n.map Char.toNat)), allSome (elToks.map parseCsElem) with
  | some syn, some cs, some els =>
    match res with
    | ["panic"] => "PROP-FAIL class=write-panic call=cstxt"
    | ["err"] => "PROP-FAIL class=write-failed call=cstxt every value is encodable in the set"
    | ["ok", hx, cnt] =>
      match unhex hx, cnt.toNat? with
      | some out, some n =>
        if n ≠ out.length then s!"PROP-FAIL class=byte-count call=cstxt reported={n} written={out.length}" else
        -- ORACLE: the independent parser accepts the stream, one element per value, even lengths, and
        -- each value field is the encoded text padded (only when odd) with the VR's padding byte
        let cfg : Valid.Cfg := { explicit := syn.explicit, bigEndian := syn.bigEndian, isSeq := fun _ _ => false }
        match Valid.parsePS35 cfg out with
        | none => s!"PROP-FAIL class=invalid-structure call=cstxt bytes={hx}"
        | some vals =>
          if vals.length ≠ els.length then s!"PROP-FAIL class=element-count call=cstxt" else
          let wires : List (Option Charset.Wire) :=
            els.map fun (x : Tag × Charset.Elem) => (Charset.writeElem (Charset.codecOf noExtCodec) cs x.2).map (·.1)
          let bad := (els.zip (vals.zip wires)).find? fun (x : (Tag × Charset.Elem) × (Valid.PVal × Option Charset.Wire)) =>
            let t := x.1.1; let p := x.2.1
            t.group ≠ p.group || t.elem ≠ p.elem || p.value.length % 2 ≠ 0 ||
            (match x.2.2 with
             | some w => w.bytes ≠ p.value
             | none => true)
          match bad with
          | some ((t, e), (p, w)) =>
            s!"PROP-FAIL class=text-padding call=cstxt tag={t.group},{t.elem} vr={e.vr.name} expected={match w with | some w => hexOf w.bytes | none => "?"} encoded={hexOf p.value}"
          | none =>
            -- MODEL: header of the syntax + value bytes, element after element
            let model : Option Bytes := (els.zip wires).foldl (fun (acc : Option Bytes) (x : (Tag × Charset.Elem) × Option Charset.Wire) =>
              let t := x.1.1; let e := x.1.2
              match acc, x.2 with
              | some a, some w =>
                (match encodeHeader syn ⟨t, e.vr, w.bytes.length⟩ with
                 | .ok (h, _) => some (a ++ h ++ w.bytes)
                 | .error _ => none)
              | _, _ => none) (some [])
            if model ≠ some out then s!"MODEL-DIFF call=cstxt model={match model with | some m => hexOf m | none => "err"} impl={hx}"
            else
              let nonAscii := els.any fun (x : Tag × Charset.Elem) => x.2.vals.any fun v => v.any (· ≥ 128)
              let odd := wires.any fun (w : Option Charset.Wire) => match w with
                | some w => w.bytes.getLast? == some 32 || w.bytes.getLast? == some 0
                | none => false
              s!"ok {if out.isEmpty then "trivial-" else ""}cstxt-{k}-{(String.ofList ((unhexStr csHex).getD [])).replace " " "_"}-n{els.length}-{if nonAscii then "na" else "ascii"}-{if odd then "pad" else "nopad"}"
      | _, _ => "BAD-LINE"
    | _ => "BAD-LINE"
  | _, _, _ => "BAD-LINE"

def handle (line : String) : String :=
  match tokens line with
  | "ds" :: ts :: path :: "T" :: rest =>
    let (treeToks, outs) := splitAt "W" rest
    match tsOf4 ts, parseTree treeToks, outs.map parseOut with
    | some syn, some (tree, bls), [some a, some b, some c] =>
      -- `calculate_byte_len` of every primitive value vs the model
      let prims := elemsPrims tree
      if prims.length ≠ bls.length then "BAD-LINE" else
      let blDiff := (prims.zip bls).find? fun (p, bl) => p.2.2.calculateByteLen ≠ bl
      let defl := ts == "3"
      match judge syn defl .setUndefined tree a "default", judge syn defl .setUndefined tree b "options-set-undefined",
            judge syn defl .noChange tree c "options-no-change" with
      | .error m, _, _ => m
      | _, .error m, _ => m
      | _, _, .error m => m
      | .ok ka, .ok kb, .ok kc =>
        match blDiff with
        | some (p, bl) => s!"MODEL-DIFF calculate_byte_len tag={p.1.group},{p.1.elem} model={p.2.2.calculateByteLen} impl={bl}"
        | none =>
        if defl ∧ ka ≠ "d" ∧ treeToks ≠ [] then s!"PROP-FAIL class=not-deflated call=default" else
        let triv := if prims.isEmpty ∧ elemsSeqTags tree = [] ∧ !elemsHasPix tree then "trivial-" else ""
        s!"ok {triv}ds-{ts}-{path}-d{elemsDepth tree}-n{min prims.length 6}-px{elemsHasPix tree}-x{elemsHasExplicit tree}-{ka}{kb}{kc}"
    | _, _, _ => "BAD-LINE"
  | "cstxt" :: k :: csHex :: rest => handleCsTxt k csHex rest
  | "prim" :: k :: val :: bl :: "R" :: res =>
    match tsOf4 k, parseValue val, (bl.drop 3).toString.toNat? with
    | some syn, some v, some blen =>
      match res with
      | ["ok", hx, cnt] =>
        match unhex hx, cnt.toNat? with
        | some bs, some n =>
          if n ≠ bs.length then s!"PROP-FAIL class=primitive-count reported={n} written={bs.length}" else
          let (mb, mn) := encodePrimitive syn.bigEndian v
          if mb ≠ bs ∨ mn ≠ n then s!"MODEL-DIFF encode_primitive model={hexOf mb},{mn} impl={hx},{n}"
          else if v.calculateByteLen ≠ blen then s!"MODEL-DIFF calculate_byte_len model={v.calculateByteLen} impl={blen}"
          else s!"ok {if bs.isEmpty then "trivial-" else ""}prim-{syn.bigEndian}-{valueKind v}-{if n % 2 = 1 then "odd" else "even"}"
        | _, _ => "BAD-LINE"
      | _ => s!"MODEL-DIFF encode_primitive impl={res}"
    | _, _, _ => "BAD-LINE"
  | "senc" :: k :: rest =>
    let (ops, res) := splitAt "R" rest
    match tsOf4 k, res with
    | some syn, [st, hx, cnt] =>
      match unhex hx, cnt.toNat? with
      | some bs, some n =>
        if st = "panic" then "PROP-FAIL class=encoder-panic" else
        -- bytes_written must be the number of bytes actually written
        if n ≠ bs.length then s!"PROP-FAIL class=bytes-written reported={n} written={bs.length}" else
        match runOps syn (Enc.new syn) ops with
        | none => "BAD-LINE"
        | some (e, okAll) =>
          let mst := if okAll then "ok" else "err"
          if mst ≠ st then s!"MODEL-DIFF senc status model={mst} impl={st}"
          else if okAll ∧ (e.out ≠ bs ∨ e.written ≠ n) then s!"MODEL-DIFF senc model={hexOf e.out},{e.written} impl={hx},{n}"
          else s!"ok senc-{k}-{st}-{min ops.length 9}"
      | _, _ => if st = "panic" then "PROP-FAIL class=encoder-panic" else "BAD-LINE"
    | _, ["panic"] => "PROP-FAIL class=encoder-panic"
    | _, _ => "BAD-LINE"
  | _ => "BAD-LINE"

def main : IO Unit := Driver.run handle
