import DicomModel.Model.Util
import DicomModel.Model.Bytes
import DicomModel.Model.Fault
import Driver.Loop
open Dicom Dicom.Fault

/-- `128,4,f,…` → ops (payload = zeros of the recorded lengths) -/
def parseOps (tok : String) : Option (List Op) :=
  if tok == "-" then some [] else
  (tok.splitOn ",").mapM fun t =>
    if t == "f" then some Op.f else t.toNat?.map fun n => Op.w (List.replicate n 0)

def parseNats (tok : String) : Option (List Nat) :=
  if tok == "-" then some [] else (tok.splitOn ",").mapM String.toNat?

def parseKind : String → Option Kind
  | "clean" => some .clean | "err" => some .err | "zero" => some .zero
  | "eofkind" => some .eofkind | "flusherr" => some .flusherr | _ => none

def resName : Res Unit → String
  | .ok _ => "ok" | .err => "err" | .panic => "panic"

structure WOut where
  res : String
  acc : Nat
  fails : Nat

/-- the model's prediction for one write case at failing offset `k` -/
def modelWrite (stack : String) (from_ : Nat) (ops : List Op) (emis : List Nat) (p : Policy) :
    Option WOut :=
  match stack with
  | "direct" =>
    let (r, s) := pubDirect ops p.sink
    some ⟨resName r, s.pos, s.fails⟩
  | "buf" =>
    let (r, b) := pubFile ops p.sink
    some ⟨resName r, b.inner.pos, b.inner.fails⟩
  | "deflbuf" =>
    let (r, d) := pubFileDeflate replayComp emis (ops.take from_) (ops.drop from_) p.sink
    some ⟨resName r, d.inner.inner.pos, d.inner.inner.fails⟩
  | "defldirect" =>
    let (r, d) := pubDatasetDeflate replayComp emis ops p.sink
    some ⟨resName r, d.inner.pos, d.inner.fails⟩
  | "pdata" =>
    let chunks := ops.filterMap fun o => match o with | .w d => some d | .f => none
    let (r, p') := pubPData chunks 1 from_ p.sink
    some ⟨resName r, p'.inner.pos, p'.inner.fails⟩
  | _ => none

inductive Verdict where
  | good
  | modelled (cls : String) (detail : String)   -- violates the property, and the model says so too
  | diff (detail : String)
  | fail (cls : String) (detail : String)

def worse : Verdict → Verdict → Verdict
  | .fail c d, _ => .fail c d
  | _, .fail c d => .fail c d
  | .diff d, _ => .diff d
  | _, .diff d => .diff d
  | .modelled c d, _ => .modelled c d
  | _, v => v

def render (sig : String) : Verdict → String
  | .good => s!"ok {sig}"
  | .modelled c d => s!"PROP-FAIL class={c} {d}"
  | .fail c d => s!"PROP-FAIL class={c} {d}"
  | .diff d => s!"MODEL-DIFF {d}"

def writeEntry (stack : String) (from_ : Nat) (ops : List Op) (emis : List Nat) (kind : Kind)
    (m : Nat) (sticky : Bool) (full : Nat) (e : String) : Verdict :=
  match e.splitOn ":" with
  | [ks, res, accs, failss, compl] =>
    match ks.toNat?, accs.toNat?, failss.toNat? with
    | some k, some acc, some fails =>
      let mo := modelWrite stack from_ ops emis ⟨kind, k, m, sticky⟩
      let defl := stack.startsWith "defl"
      -- the property, on the implementation's own outcome
      let viol : Option String :=
        if res == "panic" then some "write-panic"
        else if res == "ok" ∧ (fails > 0 ∨ compl != "1" ∨ acc ≠ full) then
          some (if stack == "deflbuf" then "deflate-file-final-block-in-drop"
                else if stack == "defldirect" then "deflate-dataset-finished-in-drop"
                else "write-fault-swallowed")
        else none
      match mo with
      | none => .diff s!"unknown stack {stack}"
      | some w =>
        -- after a failure inside the deflate stack the amount of compressed data is not predictable
        let same := w.res == res ∧ (if defl ∧ res != "ok" then (w.fails > 0) = (fails > 0)
                                    else w.acc = acc ∧ w.fails = fails)
        match viol with
        | some c =>
          let d := s!"k={k} impl={res}:acc={acc}:fails={fails}:complete={compl} full={full} model={w.res}:acc={w.acc}:fails={w.fails}"
          if same then .modelled c d else .fail c d
        | none =>
          if same then .good
          else .diff s!"k={k} impl={res}:acc={acc}:fails={fails} model={w.res}:acc={w.acc}:fails={w.fails}"
    | _, _, _ => .diff s!"bad entry {e}"
  | _ => .diff s!"bad entry {e}"

/-- "the reader consumes `total` bytes in requests of at most 64 and, if `probe`, then looks for
more (graceful end of data set on `UnexpectedEof`)" -/
def slurp : Nat → Nat → Bool → Prog
  | 0, _, probe => if probe then .need 1 (fun _ => .done false) (.done true) else .done true
  | fuel+1, total, probe =>
    if total = 0 then slurp 0 0 probe
    else .need (min 64 total) (fun _ => slurp fuel (total - min 64 total) probe) (.done false)

def readEntry (what : String) (deflated : Bool) (kind : Kind) (m : Nat) (sticky : Bool)
    (cleanRes : String) (cleanPos : Nat) (data : Bytes) (strict : Bool) (e : String) : Verdict :=
  match e.splitOn ":" with
  | [ks, res, poss, failss] =>
    match ks.toNat?, poss.toNat?, failss.toNat? with
    | some k, some pos, some fails =>
      let viol : Option String :=
        if res == "panic" then some "read-panic"
        else if res == "ok" ∧ fails > 0 ∧ kind = .err then some "read-fault-swallowed"
        else if res == "ok" ∧ fails > 0 ∧ kind = .eofkind then
          some (if what == "wire" ∨ what == "pdata" then "pdu-read-eofkind-swallowed" else "read-eofkind-taken-as-end")
        else none
      let pol : Policy := ⟨kind, k, m, sticky⟩
      -- model prediction (res, pos, fails), where the model has one
      let pred : Option (String × Nat × Nat) :=
        if what == "wire" then
          let (r, s) := wireLoop (pduFrame 16384 strict true) (pol.src data) [] (Nat.zero_le _)
          some (match r with | .ok _ => "ok" | .err _ => "err", s.pos, s.ioFails + s.eofFails)
        else if what == "pdata" then
          let (r, s) := pdataReadAll (pduFrame 16384 false true) (data.length + 1) (pol.src data) [] (Nat.zero_le _)
          some (match r with | .ok _ => "ok" | .err _ => "err", s.pos, s.ioFails + s.eofFails)
        else if kind = .err ∧ cleanRes == "ok" ∧ !deflated then
          let zeros := List.replicate data.length 0
          let src := pol.src zeros
          if what == "file" then
            -- preamble + magic code are the first 132 bytes of the generated files
            let img := List.replicate 128 0 ++ [68, 73, 67, 77] ++ List.replicate (data.length - 132) 0
            let (ok, b) := pubReadFile (slurp cleanPos (cleanPos - 132) true) (pol.src img)
            some (if ok then "ok" else "err", b.inner.pos, b.inner.ioFails + b.inner.eofFails)
          else
            let (ok, b) := pubRead (slurp (cleanPos + 1) cleanPos (what == "dataset")) src
            some (if ok then "ok" else "err", b.inner.pos, b.inner.ioFails + b.inner.eofFails)
        else none
      let d := s!"k={k} impl={res}:pos={pos}:fails={fails}"
      match pred with
      | none => match viol with
        | some c => .modelled c d
        | none => .good
      | some (mr, mp, mf) =>
        let same := mr == res ∧ mp = pos ∧ mf = fails
        let d := d ++ s!" model={mr}:pos={mp}:fails={mf}"
        match viol with
        | some c => if same then .modelled c d else .fail c d
        | none =>
          if same then .good
          -- the byte stream of a PDU / P-DATA message ends (read returns 0) where the reference receiver
          -- (`Props/C34`: Ok ⇒ the complete PDU / message was delivered) reports the missing bytes, and the
          -- implementation reports success: success with incomplete input
          else if res == "ok" ∧ mr == "err" ∧ kind = .zero ∧ (what == "wire" ∨ what == "pdata") then
            .fail "pdu-stream-truncated-reported-ok" d
          else .diff d
    | _, _, _ => .diff s!"bad entry {e}"
  | _ => .diff s!"bad entry {e}"

def sizeClass (n : Nat) : String :=
  if n ≤ 1200 then "small" else if n ≤ 8192 then "mid" else "large"

def handle (line : String) : String :=
  match tokens line with
  | ["w", stack, ts, op, kinds, ms, stickys, froms, opss, emiss, cleanres, fulls, entries] =>
    match parseKind kinds, ms.toNat?, froms.toNat?, parseOps opss, parseNats emiss, fulls.toNat? with
    | some kind, some m, some from_, some ops, some emis, some full =>
      if cleanres == "cleanpanic" then "PROP-FAIL class=write-panic clean run panics" else
      if cleanres != "cleanok" ∧ stack != "pdata" then "MODEL-DIFF clean run of the operation failed" else
      let sticky := stickys == "1"
      let v := (entries.splitOn ",").foldl
        (fun acc e => worse acc (writeEntry stack from_ ops emis kind m sticky full e)) Verdict.good
      render s!"w-{stack}-{ts}-{op}-{kinds}-{sizeClass full}" v
    | _, _, _, _, _, _ => "BAD-LINE"
  | ["r", what, ts, kinds, ms, stickys, clean, lens, hexs, entries] =>
    match parseKind kinds, ms.toNat?, lens.toNat?, unhex hexs, clean.splitOn ":" with
    | some kind, some m, some len, some hx, [cres, cposs] =>
      match cposs.toNat? with
      | none => "BAD-LINE"
      | some cpos =>
      if cres == "panic" then "PROP-FAIL class=read-panic clean run" else
      let sticky := stickys == "1"
      let strict := ts == "pdu-strict"
      let data := if hx = [] then List.replicate len 0 else hx
      let v := (entries.splitOn ",").foldl
        (fun acc e => worse acc (readEntry what (ts == "deflated" ∧ what != "meta") kind m sticky cres cpos data strict e)) Verdict.good
      render s!"r-{what}-{ts}-{kinds}-{if cres == "ok" then sizeClass len else "cleanerr"}" v
    | _, _, _, _, _ => "BAD-LINE"
  | ["devfull", ts, res] =>
    if res == "absent" then "ok trivial-devfull-absent"
    else if res == "err" then s!"ok devfull-{ts}"
    else s!"PROP-FAIL class=devfull-{res} write_to_file onto /dev/full returned {res}"
  | _ => "BAD-LINE"

def main : IO Unit := Driver.run handle
