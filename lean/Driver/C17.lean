import DicomModel.Model.Util
import DicomModel.Model.PersonName
import Driver.Loop
open Dicom Dicom.PN

def optComp (tok : String) : Option Comp :=
  if tok == "none" then some none
  else if tok.startsWith "some:" then (unhexStr (tok.drop 5).toString).map some
  else none

def showComp : Comp → String
  | none => "none"
  | some t => "some:" ++ hexOfStr t

def showPN (p : PN) : String :=
  " ".intercalate (p.comps.map showComp)

def parsePN : List String → Option PN
  | [a, b, c, d, e] =>
    match optComp a, optComp b, optComp c, optComp d, optComp e with
    | some a, some b, some c, some d, some e => some ⟨a, b, c, d, e⟩
    | _, _, _, _, _ => none
  | _ => none

def presence (p : PN) : String :=
  String.ofList (p.comps.map fun c => if c.isSome then '1' else '0')

def classOf (p : PN) : String :=
  let ss := p.comps.filterMap id
  if ss.any (·.contains '^') then "caret"
  else if p.Ok = false then "ws-edge"
  else if ss.any (·.contains '=') then "eq"
  else if ss.any (·.isEmpty) then "present-empty"
  else if ss.any (·.any fun c => c.toNat ≥ 128) then "nonascii"
  else if ss.any (·.contains ' ') then "inner-space"
  else "plain"

def handle (line : String) : String :=
  match tokens line with
  | "rt" :: a :: b :: c :: d :: e :: text :: res =>
    match parsePN [a, b, c, d, e], unhexStr text, parsePN res with
    | some p, some t, some q =>
      let ss := p.comps.filterMap id
      -- scope of the statement: no component separator, no group separator, no space at the ends
      let inScope := p.Ok && !ss.any (·.contains '=')
      -- the property on the implementation's own outputs, first
      if inScope ∧ q ≠ p.norm then
        s!"PROP-FAIL class=pn-roundtrip want={showPN p.norm} got={showPN q}"
      else
      let strip := stripTrailingNone p.comps
      let wantParts := if strip = [] then [[]] else strip.map (·.getD [])
      if inScope ∧ splitCaret t ≠ wantParts then
        s!"PROP-FAIL class=pn-text-shape text={text}"
      else
      let mt := p.toDicomString
      if mt ≠ t then s!"MODEL-DIFF text model={hexOfStr mt} impl={text}" else
      let mq := PN.fromText t
      if mq ≠ q then s!"MODEL-DIFF parse model={showPN mq} impl={showPN q}" else
      let cls := classOf p
      if ss = [] then "ok trivial-all-absent" else s!"ok rt-{presence p}-{cls}"
    | _, _, _ => "BAD-LINE"
  | "txt" :: text :: res =>
    match unhexStr text, parsePN res with
    | some t, some q =>
      let mq := PN.fromText t
      if mq ≠ q then s!"MODEL-DIFF parse model={showPN mq} impl={showPN q}" else
      let n := (splitCaret (trim t)).length
      let tr := if trim t = t then "asis" else "trimmed"
      if t = [] then "ok trivial-empty-text" else
      s!"ok txt-parts{if n > 5 then 6 else n}-{tr}-{presence q}"
    | _, _ => "BAD-LINE"
  | _ => "BAD-LINE"

def main : IO Unit := Driver.run handle
