import DicomModel.Model.Util
import DicomModel.Model.Bytes
import DicomModel.Model.StoreScp
import Driver.Loop
open Dicom Dicom.StoreScp

/-! Driver of C32: one association per line (see `harness/src/bin/c32.rs` for the line format). -/

structure Touched where
  kind : String
  path : Str
  raw : Bytes
  canon : String      -- "<tshex>:<canonhex>" as read back by dicom-object, or "unreadable"

structure Rsp where
  toks : List String  -- pc field msgid status cls inst

structure Case where
  mode : String
  cwd : Str
  dirarg : Str
  outabs : Str
  dirs : List Str
  pcs : List (Nat × Str)
  vs : List Pdv
  xs : List String    -- canonical form of each store's data set (hex), in order
  rsps : List (List String)
  «end» : String
  touched : List Touched

def takeStrs : Nat → List String → Option (List Str × List String)
  | 0, ts => some ([], ts)
  | n+1, t :: ts =>
    match unhexStr t, takeStrs n ts with
    | some s, some (r, rest) => some (s :: r, rest)
    | _, _ => none
  | _, [] => none

def takePcs : Nat → List String → Option (List (Nat × Str) × List String)
  | 0, ts => some ([], ts)
  | n+1, id :: t :: ts =>
    match id.toNat?, unhexStr t, takePcs n ts with
    | some i, some s, some (r, rest) => some ((i, s) :: r, rest)
    | _, _, _ => none
  | _, _ => none

def takePdvs : Nat → List String → Option (List Pdv × List String)
  | 0, ts => some ([], ts)
  | n+1, pc :: k :: l :: d :: ts =>
    match pc.toNat?, unhex d, takePdvs n ts with
    | some p, some b, some (r, rest) =>
      some (⟨p, if k == "c" then .command else .data, l == "1", b⟩ :: r, rest)
    | _, _, _ => none
  | _, _ => none

def takeN' : Nat → List String → Option (List String × List String)
  | 0, ts => some ([], ts)
  | n+1, t :: ts => (takeN' n ts).map fun (r, rest) => (t :: r, rest)
  | _, [] => none

def takeRsps : Nat → List String → Option (List (List String) × List String)
  | 0, ts => some ([], ts)
  | n+1, "rsp" :: a :: b :: c :: d :: e :: f :: ts =>
    (takeRsps n ts).map fun (r, rest) => ([a, b, c, d, e, f] :: r, rest)
  | _, _ => none

def takeTouched : Nat → List String → Option (List Touched × List String)
  | 0, ts => some ([], ts)
  | n+1, k :: p :: raw :: cn :: ts =>
    match unhexStr p, unhex raw, takeTouched n ts with
    | some ps, some rb, some (r, rest) => some (⟨k, ps, rb, cn⟩ :: r, rest)
    | _, _, _ => none
  | _, _ => none

def parseCase (toks : List String) : Option Case :=
  match toks with
  | mode :: _gdir :: cwd :: dirarg :: outabs :: "D" :: nd :: r0 =>
    match unhexStr cwd, unhexStr dirarg, unhexStr outabs, nd.toNat? with
    | some cwd, some dirarg, some outabs, some nd =>
      match takeStrs nd r0 with
      | some (dirs, "P" :: np :: r1) =>
        match np.toNat? >>= fun n => takePcs n r1 with
        | some (pcs, "V" :: nv :: r2) =>
          match nv.toNat? >>= fun n => takePdvs n r2 with
          | some (vs, "X" :: nx :: r3) =>
            match nx.toNat? >>= fun n => takeN' n r3 with
            | some (xs, "R" :: nr :: r4) =>
              match nr.toNat? >>= fun n => takeRsps n r4 with
              | some (rsps, e :: "T" :: nt :: r5) =>
                match nt.toNat? >>= fun n => takeTouched n r5 with
                | some (touched, []) =>
                  some ⟨mode, cwd, dirarg, outabs, dirs, pcs, vs, xs, rsps, e, touched⟩
                | _ => none
              | _ => none
            | _ => none
          | _ => none
        | _ => none
      | _ => none
    | _, _, _, _ => none
  | _ => none

/-- absolute path text → components -/
def compsOf (p : Str) : Comps := (splitOn '/' p).filter (· ≠ [])

def pathOf (c : Comps) : Str := c.flatMap fun x => '/' :: x

/-- the data bytes of each store message: data values since the last complete command -/
def storeBytes : Bytes → List Pdv → List Bytes
  | _, [] => []
  | acc, v :: vs =>
    match v.kind, v.last with
    | .command, true => storeBytes [] vs
    | .command, false => storeBytes acc vs
    | .data, false => storeBytes (acc ++ v.data) vs
    | .data, true => (acc ++ v.data) :: storeBytes (acc ++ v.data) vs

/-- remove every zero-length item `FFFE,E000 len 0` (classifier of finding empty-fragment-dropped) -/
def dropEmptyItems : Bytes → Bytes
  | 0xFE :: 0xFF :: 0x00 :: 0xE0 :: 0 :: 0 :: 0 :: 0 :: r => dropEmptyItems r
  | b :: r => b :: dropEmptyItems r
  | [] => []

def u16of (v : Option Bytes) : Option Nat :=
  match v with
  | some [a, b] => some (a + 256 * b)
  | _ => none

def decodeCmd (b : Bytes) : Option Cmd :=
  -- the group length element must be readable for the real decoder too; every element is flat
  match findImplicit 0x00000000 64 b with
  | none => none
  | some _ =>
    some { field := u16of (findImplicit 0x00000100 64 b)
           msgId := u16of (findImplicit 0x00000110 64 b)
           cls := (findImplicit 0x00000002 64 b).map asText
           inst := (findImplicit 0x00001000 64 b).map asText }

def uidOfCanon (tag : Nat) (canonHex : String) : Option Str :=
  match unhex canonHex with
  | some b => (findExplicit tag 64 b).map fun v => toStrText (asText v)
  | none => none

def isEncapsOrNative (ts : Str) : Bool := ts ≠ "1.2.840.10008.1.2.1.99".toList

def legalUid (s : Str) : Bool := !s.isEmpty && s.all fun c => c.isDigit || c == '.'

def uidClass (raw : Str) : String :=
  let t := toStrText raw
  if legalUid raw then "legal"
  else if legalUid t then "padded"
  else if nul ∈ trimEndBy isNul t then "nul"
  else if t.length > 200 then (if '/' ∈ t then "long-slash" else "long")
  else if isAbs t then "abs"
  else if dotdot ∈ splitOn '/' t then "dotdot"
  else if '/' ∈ t then "slash"
  else if '\\' ∈ t then "backslash"
  else if t.all (fun c => c == '.' || c == ' ') then "dots"
  else "other"

def tsClass (ts : Str) : String :=
  if ts = "1.2.840.10008.1.2".toList then "implicit"
  else if ts = "1.2.840.10008.1.2.1".toList then "explicit"
  else if ts = "1.2.840.10008.1.2.2".toList then "bigendian"
  else if ts = "1.2.840.10008.1.2.1.99".toList then "deflated"
  else "encaps"

def showRsp : Effect String → Option (List String)
  | .storeRsp pc m k u => some [toString pc, "32769", toString m, "0", hexOfStr k, hexOfStr u]
  | .echoRsp pc _ => some [toString pc, "32816", "-", "0", "none", "none"]
  | _ => none

def handleCase (c : Case) : String :=
  let dirs : List Comps := c.dirs.map compsOf
  let cwd := compsOf c.cwd
  let outC := compsOf c.outabs
  let sbytes := storeBytes [] c.vs
  let table : List (Bytes × String) := sbytes.zip c.xs
  -- per store: pc of its last data value
  let lastPcs : List Nat := (c.vs.filter fun v => v.kind == .data && v.last).map (·.pc)
  let stores : List (Nat × Bytes × String) := lastPcs.zip table
  let cmdUids : List Str := c.vs.filterMap fun v =>
    if v.kind == .command && v.last then
      match decodeCmd v.data with
      | some cm => if cm.field == some 1 then cm.inst else none
      | none => none
    else none
  let anySlash := cmdUids.any fun u => '/' ∈ toStrText u
  -- ---------------- the property, on the implementation's output ----------------
  let bad := c.touched.find? fun t => !(t.kind == "newfile" || t.kind == "modfile")
  match bad with
  | some t => s!"PROP-FAIL class=tree-damage {t.kind} {hexOfStr t.path}"
  | none =>
  let contentFail : Option String := c.touched.findSome? fun t =>
    match splitFile t.raw with
    | none => some s!"class=bad-file {hexOfStr t.path}"
    | some (mg, rest) =>
      let mts := (findExplicit 0x00020010 32 mg).map fun v => toStrText (asText v)
      let mcls := (findExplicit 0x00020002 32 mg).map fun v => toStrText (asText v)
      let minst := (findExplicit 0x00020003 32 mg).map fun v => toStrText (asText v)
      -- a store message of this association whose data set is the one in the file
      let cands := stores.filter fun (_, b, cn) =>
        b = rest || (cn ≠ "undecodable" && (t.canon.splitOn ":").getLast? == some cn)
      match cands with
      | [] => some s!"class=content {hexOfStr t.path} file data set is none of the received ones"
      | _ =>
        -- the same data set for dicom-object, yet a zero-length pixel data fragment of the
        -- received encoding is missing from the file
        if cands.all (fun (_, b, _) => b ≠ rest && dropEmptyItems b = rest) then
          some s!"class=empty-fragment-dropped {hexOfStr t.path} received {(cands.map (·.2.1.length))} bytes, stored {rest.length}: zero-length fragment item(s) lost"
        else
        if cands.any fun (pc, _, _) => mts.isSome && mts == lookupPc c.pcs pc then
          if cands.any fun (pc, _, cn) => mts == lookupPc c.pcs pc
              && mcls.isSome && mcls == uidOfCanon 0x00080016 cn
              && minst.isSome && minst == uidOfCanon 0x00080018 cn then none
          else some s!"class=meta-sop {hexOfStr t.path} meta class/instance differ from the data set's"
        else some s!"class=meta-ts {hexOfStr t.path} meta ts={mts.map String.ofList}"
  match contentFail with
  | some m => "PROP-FAIL " ++ m
  | none =>
  let outside := c.touched.find? fun t => !directlyInside outC (compsOf t.path)
  -- ---------------- the model ----------------
  let env : Env String := {
    decodeCmd := decodeCmd
    decodeDs := fun _ b => match table.find? (·.1 = b) with
      | some (_, cn) => if cn == "undecodable" then none else some cn
      | none => none
    sopClass := uidOfCanon 0x00080016
    sopInst := uidOfCanon 0x00080018
    pcs := c.pcs
    outDir := c.dirarg
    canWrite := fun p => (locate dirs cwd p).isSome }
  let evs := c.vs.map fun v => Ev.pdata [v]
  let effs := run env St.init evs
  let mfailed := failed env St.init evs
  let mrsps := effs.filterMap showRsp
  let modelVerdict : String :=
  if mrsps ≠ c.rsps then s!"MODEL-DIFF responses model={mrsps} impl={c.rsps}" else
  let mend := if mfailed then "end:closed" else "end:released"
  if mend ≠ c.«end» then s!"MODEL-DIFF end model={mend} impl={c.«end»}" else
  -- predicted files: last write per located path
  let writes : List (Comps × FileOut String) := effs.filterMap fun e =>
    match e with
    | .wrote f => (locate dirs cwd f.path).map fun l => (l, f)
    | _ => none
  let finalW := writes.filter fun (l, f) =>
    match (writes.filter (·.1 = l)).getLast? with
    | some (_, g) => g.ds == f.ds
    | none => false
  let predPaths := (finalW.map (pathOf ·.1)).eraseDups
  let obsPaths := c.touched.map (·.path)
  if !(predPaths.all (· ∈ obsPaths) && obsPaths.all (· ∈ predPaths)) then
    s!"MODEL-DIFF files model={predPaths.map String.ofList} impl={obsPaths.map String.ofList}"
  else
  let fileDiff : Option String := c.touched.findSome? fun t =>
    match finalW.find? (fun (l, _) => pathOf l = t.path), splitFile t.raw with
    | some (_, f), some (mg, rest) =>
      let mts := (findExplicit 0x00020010 32 mg).map fun v => toStrText (asText v)
      let mcls := (findExplicit 0x00020002 32 mg).map fun v => toStrText (asText v)
      let minst := (findExplicit 0x00020003 32 mg).map fun v => toStrText (asText v)
      if mts ≠ some f.ts then some s!"meta ts {hexOfStr t.path}"
      else if mcls ≠ some f.cls ∨ minst ≠ some f.inst then some s!"meta sop {hexOfStr t.path}"
      else if t.canon ≠ hexOfStr f.ts ++ ":" ++ f.ds then some s!"data set {hexOfStr t.path}"
      else if isEncapsOrNative f.ts && (table.find? (·.2 = f.ds)).map (·.1) ≠ some rest then
        some s!"bytes {hexOfStr t.path}"
      else none
    | _, _ => some s!"unpredicted {hexOfStr t.path}"
  match fileDiff with
  | some m => "MODEL-DIFF file " ++ m
  | none =>
  -- ---------------- signature ----------------
  if stores.isEmpty && cmdUids.isEmpty then s!"ok trivial-no-store-{c.mode}" else
  let lastUid := cmdUids.getLast?.getD []
  let lastTs := (lastPcs.getLast?.bind (lookupPc c.pcs)).getD []
  let nfr := (c.vs.filter (·.kind == .data)).length
  let outcome := if mfailed then "rejected" else "stored"
  let dirK := if isAbs c.dirarg then "absdir" else "reldir"
  s!"ok {c.mode}-{dirK}-{tsClass lastTs}-{uidClass lastUid}-{outcome}-n{cmdUids.length}-f{min nfr 4}"
  match outside with
  | some t =>
    -- the first clause of the property fails on the implementation's output; the classifier is
    -- specific: a UID with a path separator, and the model predicts exactly this tree
    let cls := if anySlash && modelVerdict.startsWith "ok" then "uid-path-escape"
      else if anySlash then "uid-path-escape-unmodelled" else "outside-dir"
    s!"PROP-FAIL class={cls} out={String.ofList c.outabs} created={String.ofList t.path} uids={cmdUids.map hexOfStr} model: {modelVerdict}"
  | none => modelVerdict

def handle (line : String) : String :=
  match tokens line with
  | ["noassoc"] => "ok trivial-noassoc"
  | toks =>
    match parseCase toks with
    | some c => handleCase c
    | none => "BAD-LINE"

def main : IO Unit := Driver.run handle
