/-
Line loop shared by all drivers: one case line in, one verdict line out.
A leading token `#<id>` is the case identifier: it is stripped before the handler sees the line
and echoed in front of the verdict.
-/
namespace Driver

def splitId (l : String) : String × String :=
  if l.startsWith "#" then
    match l.splitOn " " with
    | id :: rest => (id, " ".intercalate rest)
    | [] => ("", l)
  else ("", l)

partial def loop (h : IO.FS.Stream) (out : IO.FS.Stream) (f : String → String) : IO Unit := do
  let line ← h.getLine
  if line.isEmpty then return ()
  let l := line.trimAscii.toString
  if l.isEmpty then loop h out f else
  let (id, body) := splitId l
  out.putStrLn (if id.isEmpty then f body else id ++ " " ++ f body)
  loop h out f

def run (f : String → String) : IO Unit := do
  let i ← IO.getStdin
  let o ← IO.getStdout
  loop i o f
  o.flush

end Driver
