import DicomModel.Model.Util
import DicomModel.Model.Digits
import DicomModel.Model.Partial
import Driver.Loop
open Dicom Dicom.Digits Dicom.Partial

/-! Driver for C12.  Every handler first evaluates the property's oracle on the implementation's
own outputs (`Spec.*` below: written from the property statement, not from the code), then compares
the outputs with the model. -/

namespace C12

/-! ### small parsers / printers of the line protocol -/

def natsOf (s : String) (sep : String) : Option (List Nat) := (s.splitOn sep).mapM String.toNat?

def dateOfList : List Nat → Option DicomDate
  | [y] => some (.year y) | [y, m] => some (.month y m) | [y, m, d] => some (.day y m d) | _ => none
def timeOfList : List Nat → Option DicomTime
  | [h] => some (.hour h) | [h, m] => some (.minute h m) | [h, m, s] => some (.second h m s)
  | [h, m, s, f, fp] => some (.fraction h m s f fp) | _ => none

def dots (l : List Nat) : String := ".".intercalate (l.map toString)

def showDate : DicomDate → String
  | .year y => dots [y] | .month y m => dots [y, m] | .day y m d => dots [y, m, d]
def showTime : DicomTime → String
  | .hour h => dots [h] | .minute h m => dots [h, m] | .second h m s => dots [h, m, s]
  | .fraction h m s f fp => dots [h, m, s, f, fp]
def showND (d : NaiveDate) : String := dots [d.y, d.m, d.d]
def showNT (t : NaiveTime) : String := dots [t.h, t.m, t.s, t.f]
def showOpt {α} (f : α → String) (e : String) : Option α → String
  | some a => f a | none => e

/-- days from 0000-01-01 to 1970-01-01 and to 0001-01-01 (chrono `num_days_from_ce` = dayNumber − 365) -/
def epochDay : Nat := (NaiveDate.mk 1970 1 1).dayNumber

/-- what the harness prints for a `PreciseDateTime` -/
def showPrecise : Precise → String
  | .naive d t =>
    let us : Int := (localSecs d t - Int.ofNat (epochDay * 86400)) * 1000000 + Int.ofNat t.f
    s!"N,{showND d},{showNT t},{us}"
  | .aware d t o =>
    let us : Int := (localSecs d t - o - Int.ofNat (epochDay * 86400)) * 1000000 + Int.ofNat t.f
    s!"A,{showND d},{showNT t},{o},{us}"

def showDT (v : DicomDateTime) : String :=
  s!"{showDate v.date}/{showOpt showTime "n" v.time}/{showOpt (fun (o : Int) => toString o) "n" v.tz}"

def parseDT (s : String) : Option DicomDateTime :=
  match s.splitOn "/" with
  | [d, t, o] => do
    let d ← (natsOf d ".") >>= dateOfList
    let t ← if t == "n" then pure none else ((natsOf t ".") >>= timeOfList).map some
    let o ← if o == "n" then pure none else o.toInt?.map some
    pure ⟨d, t, o⟩
  | _ => none

/-! ### the property's oracle (independent of the model's code paths) -/
namespace Spec

def leap (y : Nat) : Bool := (y % 4 == 0 && y % 100 != 0) || y % 400 == 0
def monthLen (y m : Nat) : Nat :=
  match m with
  | 2 => if leap y then 29 else 28
  | 4 => 30 | 6 => 30 | 9 => 30 | 11 => 30
  | _ => 31

def validDateComps : DicomDate → Bool
  | .year y => y ≤ 9999
  | .month y m => y ≤ 9999 && 1 ≤ m && m ≤ 12
  | .day y m d => y ≤ 9999 && 1 ≤ m && m ≤ 12 && 1 ≤ d && d ≤ 31
/-- the value denotes at least one calendar day -/
def dateDenotes : DicomDate → Bool
  | .day y m d => d ≤ monthLen y m
  | _ => true
def dateEarliest : DicomDate → String
  | .year y => dots [y, 1, 1] | .month y m => dots [y, m, 1] | .day y m d => dots [y, m, d]
def dateLatest : DicomDate → String
  | .year y => dots [y, 12, 31] | .month y m => dots [y, m, monthLen y m] | .day y m d => dots [y, m, d]
def dateLen : DicomDate → Nat
  | .year _ => 4 | .month _ _ => 6 | .day _ _ _ => 8

def validTimeComps : DicomTime → Bool
  | .hour h => h ≤ 23
  | .minute h m => h ≤ 23 && m ≤ 59
  | .second h m s => h ≤ 23 && m ≤ 59 && s ≤ 60
  | .fraction h m s f fp => h ≤ 23 && m ≤ 59 && s ≤ 60 && 1 ≤ fp && fp ≤ 6 && f < 10 ^ fp
def timeIsLeap : DicomTime → Bool
  | .second _ _ s => s == 60 | .fraction _ _ s _ _ => s == 60 | _ => false
/-- leap second `hh:mm:60.f` = chrono's `hh:mm:59` plus `1_000_000 + f` microseconds -/
def timeEarliest : DicomTime → String
  | .hour h => dots [h, 0, 0, 0] | .minute h m => dots [h, m, 0, 0]
  | .second h m s => if s == 60 then dots [h, m, 59, 1000000] else dots [h, m, s, 0]
  | .fraction h m s f fp =>
    if s == 60 then dots [h, m, 59, 1000000 + f * 10 ^ (6 - fp)] else dots [h, m, s, f * 10 ^ (6 - fp)]
def timeLatest : DicomTime → String
  | .hour h => dots [h, 59, 59, 999999] | .minute h m => dots [h, m, 59, 999999]
  | .second h m s => if s == 60 then dots [h, m, 59, 1999999] else dots [h, m, s, 999999]
  | .fraction h m s f fp =>
    if s == 60 then dots [h, m, 59, 1000000 + (f + 1) * 10 ^ (6 - fp) - 1] else dots [h, m, s, (f + 1) * 10 ^ (6 - fp) - 1]

/-- the (padded) length a list of items of text length `n` must report: items joined by `\`, even -/
def padded (n k : Nat) : Nat := let t := k * (n + 1); t - t % 2

/-- DICOM offsets: whole minutes within −12:00 … +14:00 -/
def validOffset (o : Int) : Bool := o % 60 == 0 && -43200 ≤ o && o ≤ 50400

end Spec

def hexLen (h : String) : Nat := if h == "-" then 0 else h.length / 2

/-! ### value tokens `enc;parsed/rest;eq;len1;len2;earliest;latest[;chrono]` -/

/-- oracle + model comparison for one date value; `none` = fine -/
def checkDateTok (v : DicomDate) (tok : String) : Option String :=
  let mv : Option DicomDate := match v with
    | .year y => DicomDate.fromY y | .month y m => DicomDate.fromYm y m | .day y m d => DicomDate.fromYmd y m d
  if tok == "E" then
    if Spec.validDateComps v then some s!"PROP-FAIL class=ctor-range date {showDate v} rejected"
    else if mv.isSome then some s!"MODEL-DIFF ctor date {showDate v} model=ok impl=E" else none
  else
  match tok.splitOn ";" with
  | enc :: parsed :: eq :: l1 :: l2 :: e :: l :: chrono =>
    if !Spec.validDateComps v then
      some s!"PROP-FAIL class=ctor-range date {showDate v} accepted"
    else
    -- round trip
    if parsed != s!"{showDate v}/0" || eq != "1" then
      some s!"PROP-FAIL class=date-roundtrip {showDate v} enc={enc} parsed={parsed} eq={eq}"
    -- length
    else if hexLen enc != Spec.dateLen v || l1 != toString (Spec.padded (hexLen enc) 1) || l2 != toString (Spec.padded (hexLen enc) 2) then
      some s!"PROP-FAIL class=date-length {showDate v} enc={enc} len1={l1} len2={l2}"
    -- bounds
    else if Spec.dateDenotes v && (e != Spec.dateEarliest v || l != Spec.dateLatest v) then
      some s!"PROP-FAIL class=date-bounds {showDate v} earliest={e} latest={l}"
    else
    match mv with
    | none => some s!"MODEL-DIFF ctor date {showDate v} model=err impl=ok"
    | some m =>
      let menc := hexOf m.toEncoded
      if menc != enc then some s!"MODEL-DIFF date-enc {showDate v} model={menc} impl={enc}" else
      let mp := match parseDatePartial m.toEncoded with
        | some (p, r) => s!"{showDate p}/{r.length}" | none => "E"
      if mp != parsed then some s!"MODEL-DIFF date-parse {showDate v} model={mp} impl={parsed}" else
      let ml1 := toString (calcByteLen [m.byteLen]); let ml2 := toString (calcByteLen [m.byteLen, m.byteLen])
      if ml1 != l1 || ml2 != l2 then some s!"MODEL-DIFF date-len {showDate v} model={ml1},{ml2} impl={l1},{l2}" else
      let me := showOpt showND "E" m.earliest; let ml := showOpt showND "E" m.latest
      if me != e || ml != l then some s!"MODEL-DIFF date-bounds {showDate v} model={me},{ml} impl={e},{l}" else
      -- chrono facts (day precision tokens of the year block)
      match v, chrono with
      | .day y mo d, [c] =>
        let mc := match NaiveDate.fromYmdOpt y mo d with
          | some nd => toString (Int.ofNat nd.dayNumber - 365) | none => "x"
        let sc := if d ≤ Spec.monthLen y mo then "v" else "x"
        if (c == "x") != (sc == "x") then some s!"MODEL-DIFF chrono-validity {showDate v} chrono={c}"
        else if mc != c then some s!"MODEL-DIFF chrono-daynumber {showDate v} model={mc} chrono={c}" else none
      | _, _ => none
  | _ => some "BAD-LINE"

def checkTimeTok (v : DicomTime) (mv : Option DicomTime) (tok : String) : Option String :=
  if tok == "E" then
    if Spec.validTimeComps v then some s!"PROP-FAIL class=ctor-range time {showTime v} rejected"
    else if mv.isSome then some s!"MODEL-DIFF ctor time {showTime v} model=ok impl=E" else none
  else
  match tok.splitOn ";" with
  | [enc, parsed, eq, l1, l2, e, l] =>
    if !Spec.validTimeComps v then
      some s!"PROP-FAIL class=ctor-range time {showTime v} accepted"
    else
    if parsed != s!"{showTime v}/0" || eq != "1" then
      some s!"PROP-FAIL class=time-roundtrip {showTime v} enc={enc} parsed={parsed} eq={eq}"
    else if l1 != toString (Spec.padded (hexLen enc) 1) || l2 != toString (Spec.padded (hexLen enc) 2) then
      some s!"PROP-FAIL class=time-length {showTime v} enc={enc} len1={l1} len2={l2}"
    else if Spec.timeIsLeap v && (e != Spec.timeEarliest v || l != Spec.timeLatest v) then
      some s!"PROP-FAIL class=leap-second-bounds {showTime v} earliest={e} latest={l}"
    else if !Spec.timeIsLeap v && (e != Spec.timeEarliest v || l != Spec.timeLatest v) then
      some s!"PROP-FAIL class=time-bounds {showTime v} earliest={e} latest={l}"
    else
    match mv with
    | none => some s!"MODEL-DIFF ctor time {showTime v} model=err impl=ok"
    | some m =>
      if m != v then some s!"MODEL-DIFF ctor time {showTime v} model={showTime m}" else
      let menc := hexOf m.toEncoded
      if menc != enc then some s!"MODEL-DIFF time-enc {showTime v} model={menc} impl={enc}" else
      let mp := match parseTimePartial m.toEncoded with
        | some (p, r) => s!"{showTime p}/{r.length}" | none => "E"
      if mp != parsed then some s!"MODEL-DIFF time-parse {showTime v} model={mp} impl={parsed}" else
      let ml1 := toString (calcByteLen [m.byteLen]); let ml2 := toString (calcByteLen [m.byteLen, m.byteLen])
      if ml1 != l1 || ml2 != l2 then some s!"MODEL-DIFF time-len {showTime v} model={ml1},{ml2} impl={l1},{l2}" else
      let me := showOpt showNT "E" m.earliest; let ml := showOpt showNT "E" m.latest
      if me != e || ml != l then some s!"MODEL-DIFF time-bounds {showTime v} model={me},{ml} impl={e},{l}" else none
  | _ => some "BAD-LINE"

/-- a leap-second failure (class kept from the finding fixed by /repo 011408a) is reported after
everything else on the line has been compared -/
def isLeapFinding (s : String) : Bool := s.startsWith "PROP-FAIL class=leap-second-bounds"

/-! ### exhaustive blocks -/

def firstSome (l : List (Option String)) : Option String :=
  match l.filterMap id with
  | [] => none
  | x :: rest => some (match (x :: rest).find? (fun s => !isLeapFinding s) with | some y => y | none => x)

def yearBlock (y : Nat) (toks : List String) : String :=
  if toks.length != 385 then "BAD-LINE" else
  let vals : List DicomDate := DicomDate.year y ::
    (List.range 12).flatMap fun m => DicomDate.month y (m + 1) :: (List.range 31).map fun d => DicomDate.day y (m + 1) (d + 1)
  -- cross-check inside the block: earliest/latest of a month value = first/last chrono-valid day
  let monthCross : Option String := (List.range 12).findSome? fun m =>
    let seg := (toks.drop (1 + m * 32)).take 32
    match seg with
    | mt :: days =>
      let validDays := (days.zipIdx.filter fun p => !p.1.endsWith ";x").map (·.2 + 1)
      match mt.splitOn ";", validDays.head?, validDays.getLast? with
      | [_, _, _, _, _, e, l], some a, some b =>
        if e != dots [y, m + 1, a] || l != dots [y, m + 1, b] then
          some s!"PROP-FAIL class=date-bounds month {y}.{m+1} earliest={e} latest={l} chrono-valid-days={a}..{b}"
        else none
      | _, _, _ => none
    | [] => none
  match monthCross with
  | some f => f
  | none =>
    match firstSome ((vals.zip toks).map fun (v, t) => checkDateTok v t) with
    | some f => f
    | none =>
      let k := if Spec.leap y then "leap" else "common"
      let c := if y % 100 == 0 then "century" else "plain"
      s!"ok date-year-block-{k}-{c}-{y / 1000}xxx"

def timeBlock (h m : Nat) (toks : List String) : String :=
  match toks with
  | ht :: mt :: secs =>
    if secs.length != 60 then "BAD-LINE" else
    let r1 := if m == 0 then checkTimeTok (.hour h) (DicomTime.fromH h) ht else none
    let r2 := checkTimeTok (.minute h m) (DicomTime.fromHm h m) mt
    let rs := secs.zipIdx.map fun (t, s) => checkTimeTok (.second h m s) (DicomTime.fromHms h m s) t
    match firstSome (r1 :: r2 :: rs) with
    | some f => f
    | none => s!"ok time-block-h{h / 6}-m{m / 20}"
  | _ => "BAD-LINE"

def leapBlock (h : Nat) (toks : List String) : String :=
  if toks.length != 60 then "BAD-LINE" else
  let rs := toks.zipIdx.map fun (t, m) => checkTimeTok (.second h m 60) (DicomTime.fromHms h m 60) t
  match firstSome rs with
  | some f => f
  | none => s!"ok time-leap-block"

/-! ### sampled cases -/

def buildTimeModel (v : DicomTime) (how : String) : Option DicomTime :=
  if how == "p" then
    let text := match v with
      | .hour h => fmtPad 2 h | .minute h m => fmtPad 2 h ++ fmtPad 2 m
      | .second h m s => fmtPad 2 h ++ fmtPad 2 m ++ fmtPad 2 s
      | .fraction h m s f fp => fmtPad 2 h ++ fmtPad 2 m ++ fmtPad 2 s ++ 46 :: fmtPad fp f
    (parseTimePartial text).map (·.1)
  else match v with
    | .hour h => DicomTime.fromH h | .minute h m => DicomTime.fromHm h m
    | .second h m s => DicomTime.fromHms h m s
    | .fraction h m s f fp =>
      if fp == 3 then DicomTime.fromHmsMilli h m s f else if fp == 6 then DicomTime.fromHmsMicro h m s f else none

def ntOfString (s : String) : Option NaiveTime :=
  match natsOf s "." with | some [h, m, s, f] => some ⟨h, m, s, f⟩ | _ => none
def ndOfString (s : String) : Option NaiveDate :=
  match natsOf s "." with | some [y, m, d] => some ⟨y, m, d⟩ | _ => none

def precSig : DicomTime → String
  | .hour _ => "h" | .minute _ _ => "hm" | .second _ _ s => if s == 60 then "hms-leap" else "hms"
  | .fraction _ _ s _ fp => if s == 60 then s!"frac{fp}-leap" else s!"frac{fp}"

def handleTf (v : DicomTime) (how : String) (rest : List String) : String :=
  let mv := buildTimeModel v how
  match rest with
  | ["E"] =>
    match checkTimeTok v mv "E" with
    | some f => f
    | none => s!"ok trivial-tf-rejected"
  | [tok, isp, exact, tnt, inst, flags] =>
    let r := checkTimeTok v mv tok
    match r.filter (fun s => !isLeapFinding s) with
    | some f => f
    | none =>
      -- a precise instant consistent with the value must lie between the bounds
      if inst != "n" && flags != "11" then
        s!"PROP-FAIL class=time-instant-outside {showTime v} instant={inst} flags={flags}"
      else
      match mv with
      | none => "MODEL-DIFF tf ctor"
      | some m =>
        let misp := if m.isPrecise then "1" else "0"
        let mex := showOpt showNT "E" m.exact
        let mtn := showOpt showNT "E" m.toNaiveTime
        if misp != isp || mex != exact || mtn != tnt then
          s!"MODEL-DIFF tf-exact {showTime v} model={misp},{mex},{mtn} impl={isp},{exact},{tnt}"
        else
        -- the model's order agrees with chrono's on the sampled instant
        let mflags := match ntOfString inst with
          | some x =>
            (match m.earliest with | some e => if e.le x then "1" else "0" | none => "2") ++
            (match m.latest with | some l => if x.le l then "1" else "0" | none => "2")
          | none => "22"
        if mflags != flags then s!"MODEL-DIFF tf-order {showTime v} inst={inst} model={mflags} impl={flags}" else
        match r with
        | some f => f
        | none => s!"ok tf-{how}-{precSig v}"
  | _ => "BAD-LINE"

def handleTc (which : String) (args : String) (out : String) : String :=
  match natsOf args "." with
  | none => "BAD-LINE"
  | some a =>
    let (m, spec) : Option String × Option Bool := match which, a with
      | "h", [h] => ((DicomTime.fromH h).map showTime, some (h ≤ 23))
      | "hm", [h, m] => ((DicomTime.fromHm h m).map showTime, some (h ≤ 23 && m ≤ 59))
      | "hms", [h, m, s] => ((DicomTime.fromHms h m s).map showTime, some (h ≤ 23 && m ≤ 59 && s ≤ 60))
      | "milli", [h, m, s, f] => ((DicomTime.fromHmsMilli h m s f).map showTime, some (h ≤ 23 && m ≤ 59 && s ≤ 60 && f ≤ 999))
      | "micro", [h, m, s, f] => ((DicomTime.fromHmsMicro h m s f).map showTime, some (h ≤ 23 && m ≤ 59 && s ≤ 60 && f ≤ 999999))
      | "y", [y] => ((DicomDate.fromY y).map showDate, some (y ≤ 9999))
      | "ym", [y, m] => ((DicomDate.fromYm y m).map showDate, some (y ≤ 9999 && 1 ≤ m && m ≤ 12))
      | "ymd", [y, m, d] => ((DicomDate.fromYmd y m d).map showDate, some (y ≤ 9999 && 1 ≤ m && m ≤ 12 && 1 ≤ d && d ≤ 31))
      | _, _ => (none, none)
    match spec with
    | none => "BAD-LINE"
    | some ok =>
      -- a value with an out-of-range component is not a valid value: the constructor must refuse it
      if ok != (out != "E") then s!"PROP-FAIL class=ctor-range {which} {args} impl={out}"
      else if showOpt id "E" m != out then s!"MODEL-DIFF ctor {which} {args} model={showOpt id "E" m} impl={out}"
      else s!"ok tc-{which}-{if ok then "accept" else "reject"}"

def buildDateModel : DicomDate → Option DicomDate
  | .year y => DicomDate.fromY y | .month y m => DicomDate.fromYm y m | .day y m d => DicomDate.fromYmd y m d

def preciseKind (s : String) : String := (s.take 1).toString

/-- parse `N,y.m.d,h.m.s.f,us` / `A,y.m.d,h.m.s.f,off,us` -/
def preciseOfString (s : String) : Option (Precise × Int) :=
  match s.splitOn "," with
  | ["N", d, t, us] => do
    let d ← ndOfString d; let t ← ntOfString t; let us ← us.toInt?
    pure (.naive d t, us)
  | ["A", d, t, o, us] => do
    let d ← ndOfString d; let t ← ntOfString t; let o ← o.toInt?; let us ← us.toInt?
    pure (.aware d t o, us)
  | _ => none

def specDtEarliest (v : DicomDateTime) : String :=
  let t := match v.time with | some t => Spec.timeEarliest t | none => "0.0.0.0"
  match v.tz with
  | some o => s!"A,{Spec.dateEarliest v.date},{t},{o}"
  | none => s!"N,{Spec.dateEarliest v.date},{t}"
def specDtLatest (v : DicomDateTime) : String :=
  let t := match v.time with | some t => Spec.timeLatest t | none => "23.59.59.999999"
  match v.tz with
  | some o => s!"A,{Spec.dateLatest v.date},{t},{o}"
  | none => s!"N,{Spec.dateLatest v.date},{t}"

/-- drop the trailing `,micros` field -/
def dropMicros (s : String) : String := ",".intercalate ((s.splitOn ",").dropLast)

def dtSig (v : DicomDateTime) : String :=
  let d := match v.date with | .year _ => "y" | .month _ _ => "ym" | .day _ _ _ => "ymd"
  let t := match v.time with | some t => precSig t | none => "notime"
  let o := match v.tz with
    | none => "naive"
    | some o => if !Spec.validOffset o then (if o % 60 != 0 then "offsec" else "offrange") else if o < 0 then "west" else "east"
  s!"{d}-{t}-{o}"

def handleDt (ds ts os : String) (rest : List String) : String :=
  let spec : Option DicomDateTime := do
    let d ← (natsOf ds ".") >>= dateOfList
    let t ← if ts == "n" then pure none else ((natsOf ts ".") >>= timeOfList).map some
    let o ← if os == "n" then pure none else os.toInt?.map some
    pure ⟨d, t, o⟩
  match spec with
  | none => "BAD-LINE"
  | some v =>
    let compsOk := Spec.validDateComps v.date && (match v.time with | some t => Spec.validTimeComps t | none => true)
    let offOk := match v.tz with | some o => Spec.validOffset o | none => true
    let valid := compsOk && offOk && (v.time.isNone || v.date.isPrecise)
    match rest with
    | ["X"] => "ok trivial-dt-parts-rejected"
    | ["E"] =>
      if valid then s!"PROP-FAIL class=ctor-range datetime {showDT v} rejected"
      else if v.time.isSome && !v.date.isPrecise then "ok dt-time-needs-precise-date" else "MODEL-DIFF dt ctor"
    | [enc, parsed, eq, l1, l2, e, l, isp, exact, inst, flags] =>
      let leap := match v.time with | some t => Spec.timeIsLeap t | none => false
      let leapFinding : Option String :=
        if valid && leap && Spec.dateDenotes v.date && (dropMicros e != specDtEarliest v || dropMicros l != specDtLatest v) then
          some s!"PROP-FAIL class=leap-second-bounds datetime {showDT v} earliest={e} latest={l}" else none
      let oracle : Option String :=
        if !valid then none
        else if parsed != showDT v || eq != "1" then
          some s!"PROP-FAIL class=datetime-roundtrip {showDT v} enc={enc} parsed={parsed} eq={eq}"
        else if l1 != toString (Spec.padded (hexLen enc) 1) || l2 != toString (Spec.padded (hexLen enc) 2) then
          some s!"PROP-FAIL class=datetime-length {showDT v} enc={enc} len1={l1} len2={l2}"
        else if Spec.dateDenotes v.date then
          if !leap && (dropMicros e != specDtEarliest v || dropMicros l != specDtLatest v) then
            some s!"PROP-FAIL class=datetime-bounds {showDT v} earliest={e} latest={l}"
          else if inst != "n" && flags != "11" then
            some s!"PROP-FAIL class=datetime-instant-outside {showDT v} instant={inst} flags={flags}"
          else none
        else none
      match oracle with
      | some f => f
      | none =>
        let mdate := buildDateModel v.date
        let m : Option DicomDateTime := match mdate with
          | none => none
          | some d => match v.time, v.tz with
            | none, none => some (DicomDateTime.fromDate d)
            | none, some o => some (DicomDateTime.fromDateWithTimeZone d o)
            | some t, none => DicomDateTime.fromDateAndTime d t
            | some t, some o => DicomDateTime.fromDateAndTimeWithTimeZone d t o
        match m with
        | none => "MODEL-DIFF dt ctor model=err impl=ok"
        | some m =>
          let menc := hexOf m.toEncoded
          if menc != enc then s!"MODEL-DIFF dt-enc {showDT v} model={menc} impl={enc}" else
          let mp := showOpt showDT "E" (parseDateTimePartial m.toEncoded)
          if mp != parsed then s!"MODEL-DIFF dt-parse {showDT v} model={mp} impl={parsed}" else
          let ml1 := toString (calcByteLen [m.byteLen]); let ml2 := toString (calcByteLen [m.byteLen, m.byteLen])
          if ml1 != l1 || ml2 != l2 then s!"MODEL-DIFF dt-len {showDT v} model={ml1},{ml2} impl={l1},{l2}" else
          let me := showOpt showPrecise "E" m.earliest; let ml := showOpt showPrecise "E" m.latest
          if me != e || ml != l then s!"MODEL-DIFF dt-bounds {showDT v} model={me},{ml} impl={e},{l}" else
          let misp := if m.isPrecise then "1" else "0"
          let mex := showOpt showPrecise "E" m.exact
          if misp != isp || mex != exact then s!"MODEL-DIFF dt-exact {showDT v} model={misp},{mex} impl={isp},{exact}" else
          let mflags := match preciseOfString inst with
            | some (x, _) =>
              (match m.earliest with | some e => (match e.le? x with | some true => "1" | _ => "0") | none => "2") ++
              (match m.latest with | some l => (match x.le? l with | some true => "1" | _ => "0") | none => "2")
            | none => "22"
          if mflags != flags then s!"MODEL-DIFF dt-order {showDT v} inst={inst} model={mflags} impl={flags}" else
          match leapFinding with
          | some f => f
          | none => s!"ok dt-{dtSig v}{if Spec.dateDenotes v.date then "" else "-nodate"}"
    | _ => "BAD-LINE"

def showDateRange (r : DateRange) : String := s!"{showOpt showND "n" r.start}/{showOpt showND "n" r.stop}"
def showTimeRange (r : TimeRange) : String := s!"{showOpt showNT "n" r.start}/{showOpt showNT "n" r.stop}"
def showDtRange (r : DateTimeRange) : String :=
  s!"{if r.aware then "A" else "N"}/{showOpt showPrecise "n" r.start}/{showOpt showPrecise "n" r.stop}"

/-- oracle of the range clause on the implementation's own `earliest(A)`, `latest(B)`:
`le` decides start ≤ end on the printed bounds -/
def rangeExpect (ea lb : String) (le : String → String → Option Bool) : Option String :=
  if ea == "E" || lb == "E" then some "E"
  else if ea == "n" && lb == "n" then none
  else if ea == "n" || lb == "n" then some s!"{ea}/{lb}"
  else match le ea lb with
    | some true => some s!"{ea}/{lb}"
    | some false => some "E"
    | none => none

def leND (a b : String) : Option Bool := do
  let x ← ndOfString a; let y ← ndOfString b; pure (x.le y)
def leNT (a b : String) : Option Bool := do
  let x ← ntOfString a; let y ← ntOfString b; pure (x.le y)

def handleDr (mal a b ea lb text out : String) : String :=
  match unhex text with
  | none => "BAD-LINE"
  | some bytes =>
    let oracle : Option String :=
      if mal == "0" then
        match rangeExpect ea lb leND with
        | some exp => if exp != out then some s!"PROP-FAIL class=date-range A={a} B={b} expected={exp} impl={out}" else none
        | none => none
      else none
    match oracle with
    | some f => f
    | none =>
      let m := showOpt showDateRange "E" (parseDateRange bytes)
      if m != out then s!"MODEL-DIFF date-range text={text} model={m} impl={out}"
      else if mal == "1" then s!"ok dr-malformed-{if out == "E" then "err" else "ok"}"
      else s!"ok dr-{if a == "n" then "open" else toString (a.splitOn ".").length}-{if b == "n" then "open" else toString (b.splitOn ".").length}-{if out == "E" then "err" else "ok"}"

def handleTr (mal a b ea lb text out : String) : String :=
  match unhex text with
  | none => "BAD-LINE"
  | some bytes =>
    let oracle : Option String :=
      if mal == "0" then
        match rangeExpect ea lb leNT with
        | some exp => if exp != out then some s!"PROP-FAIL class=time-range A={a} B={b} expected={exp} impl={out}" else none
        | none => none
      else none
    match oracle with
    | some f => f
    | none =>
      let m := showOpt showTimeRange "E" (parseTimeRange bytes)
      if m != out then s!"MODEL-DIFF time-range text={text} model={m} impl={out}"
      else if mal == "1" then s!"ok tr-malformed-{if out == "E" then "err" else "ok"}"
      else s!"ok tr-{if a == "n" then "open" else toString (a.splitOn ".").length}-{if b == "n" then "open" else toString (b.splitOn ".").length}-{if out == "E" then "err" else "ok"}"

/-- order of two printed precise values of the same kind, by the implementation's own instants -/
def lePrecise (a b : String) : Option Bool := do
  let (x, ux) ← preciseOfString a; let (y, uy) ← preciseOfString b
  match x, y with
  | .naive .., .naive .. => pure (ux ≤ uy)
  | .aware .., .aware .. => pure (ux ≤ uy)
  | _, _ => none

/-- the documented caveat of `parse_datetime_range`: with exactly two dashes the first one is
preferred whenever both sides parse; this is wrong when the left value carries the west offset and
the right side's year reads as a valid west offset (year ≤ 1200) -/
def dashCaveat (a b : String) : Bool :=
  match parseDT a, parseDT b with
  | some x, some y =>
    (match x.tz with | some o => o < 0 | none => false) && y.date.yr ≤ 1200 &&
    !(match y.tz with | some o => o < 0 | none => false)
  | _, _ => false

def handleXr (mal mode a b ea lb text out : String) : String :=
  match unhex text with
  | none => "BAD-LINE"
  | some bytes =>
    let amb := if mode == "0" then Ambig.toKnown else if mode == "1" then Ambig.failOn else Ambig.ignoreTz
    let sameKind := a == "n" || b == "n" || preciseKind ea == preciseKind lb || ea == "E" || lb == "E"
    -- an inverted range (earliest A after latest B) denotes no interval; with two dashes the code then
    -- tries the other dash and may build some other range (the statement makes no claim there)
    let invertedTwoDash := lePrecise ea lb == some false && (dashIndexes bytes).length == 2
    let oracle : Option String :=
      if mal == "0" && sameKind && !dashCaveat a b && !invertedTwoDash then
        let kind := if ea != "n" && ea != "E" then preciseKind ea else preciseKind lb
        match rangeExpect ea lb lePrecise with
        | some exp =>
          let exp := if exp == "E" then exp else s!"{kind}/{exp}"
          if exp != out then some s!"PROP-FAIL class=datetime-range A={a} B={b} expected={exp} impl={out}" else none
        | none => none
      else none
    match oracle with
    | some f => f
    | none =>
      let m := showOpt showDtRange "E" (parseDateTimeRange amb bytes)
      if m != out then s!"MODEL-DIFF datetime-range mode={mode} text={text} model={m} impl={out}"
      else if mal == "1" then s!"ok xr-malformed-{if out == "E" then "err" else "ok"}"
      else
        let k (s : String) := if s == "n" then "open" else if s == "E" then "nobound" else preciseKind s
        s!"ok xr-m{mode}-{k ea}-{k lb}-{(dashIndexes bytes).length}dash{if dashCaveat a b then "-caveat" else ""}{if invertedTwoDash then "-inverted" else ""}-{if out == "E" then "err" else "ok"}"

def handlePx (kind text out : String) : String :=
  match unhex text with
  | none => "BAD-LINE"
  | some bytes =>
    let m := match kind with
      | "d" => (match parseDatePartial bytes with | some (d, r) => s!"{showDate d}/{r.length}" | none => "E")
      | "t" => (match parseTimePartial bytes with | some (t, r) => s!"{showTime t}/{r.length}" | none => "E")
      | _ => showOpt showDT "E" (parseDateTimePartial bytes)
    if m != out then s!"MODEL-DIFF parse-{kind} text={text} model={m} impl={out}"
    else s!"ok px-{kind}-{if out == "E" then "err" else "ok"}{if bytes.isEmpty then "-empty" else ""}"

def handle (line : String) : String :=
  match tokens line with
  | "Y" :: y :: toks =>
    match y.toNat? with
    | some y => if toks == ["panic"] then "PROP-FAIL class=panic the implementation panicked" else yearBlock y toks
    | none => "BAD-LINE"
  | "T" :: h :: m :: toks =>
    match h.toNat?, m.toNat? with
    | some h, some m => if toks == ["panic"] then "PROP-FAIL class=panic the implementation panicked" else timeBlock h m toks
    | _, _ => "BAD-LINE"
  | "L" :: h :: toks =>
    match h.toNat? with
    | some h => if toks == ["panic"] then "PROP-FAIL class=panic the implementation panicked" else leapBlock h toks
    | none => "BAD-LINE"
  | "tf" :: spec :: how :: rest =>
    match (natsOf spec ".") >>= timeOfList with
    | some v => handleTf v how rest
    | none => "BAD-LINE"
  | ["tc", which, args, out] => handleTc which args out
  | "dt" :: ds :: ts :: os :: rest => handleDt ds ts os rest
  | ["dr", mal, a, b, ea, lb, text, out] => handleDr mal a b ea lb text out
  | ["tr", mal, a, b, ea, lb, text, out] => handleTr mal a b ea lb text out
  | ["xr", mal, mode, a, b, ea, lb, text, out] => handleXr mal mode a b ea lb text out
  | ["px", kind, text, out] => handlePx kind text out
  | "panic" :: _ => "PROP-FAIL class=panic the implementation panicked"
  | _ => "BAD-LINE"

end C12

def main : IO Unit := Driver.run C12.handle
