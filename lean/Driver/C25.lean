import DicomModel.Model.Util
import DicomModel.Model.Pdu
import DicomModel.Model.PduText
import Driver.Loop
open Dicom Dicom.Pdu Dicom.Pdu.Text

/-- result of `readPdu` in the vocabulary of the harness -/
def showRead (total : Nat) : Res (Pdu × Bytes) → List String
  | .ok (p, rest) => ["some", toString (total - rest.length)] ++ showPdu p
  | .inc => ["none"]
  | .err .panic => ["panic"]
  | .err _ => ["err"]

def classOf (r : List String) : String := r.headD "?"

def showWrite : W → List String
  | .ok b => ["ok", hexOf b]
  | .error .encode => ["err:encode"]
  | .error .tooLong => ["err:other"]

def userVarKinds (vs : List UserVar) : String :=
  let has (f : UserVar → Bool) (c : String) := if vs.any f then c else ""
  has (fun | .maxLength _ => true | _ => false) "m" ++
  has (fun | .implClassUid _ => true | _ => false) "c" ++
  has (fun | .implVersionName _ => true | _ => false) "v" ++
  has (fun | .sopClassExt _ _ => true | _ => false) "e" ++
  has (fun | .roleSelection _ _ _ => true | _ => false) "r" ++
  has (fun | .userIdentity _ => true | _ => false) "i" ++
  has (fun | .unknown _ _ => true | _ => false) "u"

def shape : Pdu → String
  | .associationRQ a => s!"pc{countClass a.pcs.length}-uv{userVarKinds a.uvs}"
  | .associationAC a => s!"pc{countClass a.pcs.length}-uv{userVarKinds a.uvs}"
  | .pData vs => s!"n{countClass vs.length}"
  | .associationRJ _ (.serviceUser _) => "su"
  | .associationRJ _ (.asce _) => "asce"
  | .associationRJ _ (.presentation _) => "pres"
  | .abortRQ .serviceUser => "su"
  | .abortRQ .reserved => "res"
  | .abortRQ (.serviceProvider _) => "sp"
  | _ => "-"

/-- sampled prefixes: `(len, class)` pairs -/
def pairs : List String → Option (List (Nat × String))
  | [] => some []
  | n :: c :: r => do
    let n ← n.toNat?
    let rest ← pairs r
    pure ((n, c) :: rest)
  | _ => none

/-- the property's "reads back equal, consuming exactly those bytes": equality is up to the documented
normalisation (white space trimmed, AE titles 16 bytes), so a reader that normalises less is not a
property failure (it still differs from the model and is reported as such) -/
def sameUpToNorm (len : Nat) (normToks rres : List String) : Bool :=
  match rres with
  | "some" :: n :: ptoks =>
    n == toString len &&
      (match parsePdu ptoks with
       | some q => showPdu (normPdu q) == normToks
       | none => false)
  | _ => false

def handleGen (mx : Nat) (strict : Bool) (tail : Bytes) (p : Pdu) (wres rres pfx sp : List String) : String :=
  let wf := wfPdu p
  let validMx := minimumPduSize ≤ mx ∧ mx ≤ maximumPduSize
  let mw := writePdu p
  let normToks := showPdu (normPdu p)
  -- `=in` stands for "the same tokens as the input PDU"
  let rres := match rres with
    | ["some", n, "=in"] => ["some", n] ++ showPdu p
    | r => r
  match wres with
  | ["ok", bhex] =>
    match unhex bhex with
    | none => "BAD-LINE"
    | some b =>
      let bodyLen := b.length - 6
      let fits := !strict || bodyLen ≤ mx
      -- 1. the property, on the implementation's outputs
      if showWrite mw = ["err:other"] then
        s!"PROP-FAIL class=oversize-not-rejected an item content exceeds its length field but write_pdu returned {b.length} bytes"
      else if wf ∧ !validPS38 b then
        s!"PROP-FAIL class=lengths-inconsistent the independent PS3.8 check rejects the {b.length} bytes written"
      else if wf ∧ validMx ∧ fits ∧ !sameUpToNorm b.length normToks rres then
        s!"PROP-FAIL class=roundtrip read_pdu(write_pdu(p) ++ tail) gave {(rres.take 12)} (|bytes|={b.length})"
      else if validMx ∧ fits ∧ pfx.drop 2 ≠ ["0", "-", "-"] then
        s!"PROP-FAIL class=prefix-not-incomplete strict prefix reads as {pfx.drop 2} (bad count, first length, class)"
      else if validMx ∧ strict ∧ mx < bodyLen ∧ classOf rres ≠ "err" then
        s!"PROP-FAIL class=strict-accepts-long body {bodyLen} > max {mx} gave {classOf rres}"
      else
      -- 2. model against implementation
      if showWrite mw ≠ ["ok", hexOf b] then s!"MODEL-DIFF write model={(showWrite mw).map (·.take 80)} impl=ok {bhex.take 80} (|impl|={b.length})"
      else
        let mr := showRead (b.length + tail.length) (readPdu mx strict (b ++ tail))
        if mr ≠ rres then s!"MODEL-DIFF read model={mr.take 12} impl={rres.take 12}"
        else match pairs (sp.drop 1) with
          | none => "BAD-LINE"
          | some sps =>
            match sps.find? (fun (n, c) => classOf (showRead n (readPdu mx strict (b.take n))) ≠ c) with
            | some (n, c) => s!"MODEL-DIFF prefix {n} impl={c} model={classOf (showRead n (readPdu mx strict (b.take n)))}"
            | none =>
              let cls := if !validMx then "badmax" else if !fits then "toolong" else classOf rres
              let triv := match p with
                | .unknown _ [] => "trivial-" | .pData [] => "trivial-" | _ => ""
              s!"ok {triv}{kindName p}-{shape p}-{sizeClass b.length}-{if wf then "wf" else "nwf"}-{cls}{if normToks = showPdu p then "" else "-norm"}"
  | [w] =>
    if w = "panic" then "PROP-FAIL class=write-panic write_pdu panicked"
    else if showWrite mw ≠ [w] then s!"MODEL-DIFF write model={(showWrite mw).map (·.take 80)} impl={w}"
    else s!"ok {kindName p}-{shape p}-{w}"
  | _ => "BAD-LINE"

def handle (line : String) : String :=
  match sections (tokens line) with
  | ["gen", mx, strict, tail] :: ptoks :: wres :: rres :: pfx :: sp :: [] =>
    match mx.toNat?, unhex tail, parsePdu ptoks with
    | some mx, some tail, some p => handleGen mx (strict == "1") tail p wres rres pfx sp
    | _, _, _ => "BAD-LINE"
  | ["mal", mx, strict, bhex] :: rres :: [] =>
    match mx.toNat?, unhex bhex with
    | some mx, some b =>
      let mr := showRead b.length (readPdu mx (strict == "1") b)
      if mr ≠ rres then s!"MODEL-DIFF read model={mr.take 12} impl={rres.take 12}"
      else s!"ok mal-t{(b.headD 0)}-{classOf rres}"
    | _, _ => "BAD-LINE"
  | _ => "BAD-LINE"

def main : IO Unit := Driver.run handle
