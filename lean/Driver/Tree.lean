import DicomModel.Model.Util
import DicomModel.Model.Writer
/-!
Line-protocol parser for data set trees (the S-expression form printed by harness/src/bin/c01/gen.rs)
and for primitive value tokens. Shared by the C01 / C04 drivers (and importable by others).
-/
open Dicom
namespace Driver

def splitComma (s : String) : List String := if s.isEmpty then [] else s.splitOn ","

def parseTag8 (s : String) : Option Tag :=
  if s.length ≠ 8 then none else
  match unhex s with
  | some [a, b, c, d] => some ⟨a * 256 + b, c * 256 + d⟩
  | _ => none

def allSome {α : Type} : List (Option α) → Option (List α)
  | [] => some []
  | none :: _ => none
  | some a :: r => (allSome r).map (a :: ·)

def parseInt? (s : String) : Option Int :=
  if s.startsWith "-" then (s.drop 1).toString.toNat?.map fun n => -(n : Int) else s.toNat?.map Int.ofNat

def parseFloatItem (s : String) : Option (Nat × Bytes) :=
  match s.splitOn "/" with
  | [b, t] => match b.toNat?, unhex t with
    | some b, some t => some (b, t)
    | _, _ => none
  | _ => none

/-- value token (see gen.rs `value_token`) -/
def parseValue (tok : String) : Option PValue :=
  if tok == "e" then some .empty
  else match tok.splitOn ":" with
  | [k, body] =>
    let parts := splitComma body
    if k == "s" then (allSome (parts.map unhex)).map .strs
    else if k == "t" then (unhex (if body.isEmpty then "-" else body)).map .str
    else if k == "tags" then (allSome (parts.map parseTag8)).map .tags
    else if k == "u8" then (unhex (if body.isEmpty then "-" else body)).map .u8
    else if k == "u16" then (allSome (parts.map String.toNat?)).map .u16
    else if k == "u32" then (allSome (parts.map String.toNat?)).map .u32
    else if k == "u64" then (allSome (parts.map String.toNat?)).map .u64
    else if k == "i16" then (allSome (parts.map parseInt?)).map .i16
    else if k == "i32" then (allSome (parts.map parseInt?)).map .i32
    else if k == "i64" then (allSome (parts.map parseInt?)).map .i64
    else if k == "f32" then (allSome (parts.map parseFloatItem)).map .f32
    else if k == "f64" then (allSome (parts.map parseFloatItem)).map .f64
    else if k == "da" then (allSome (parts.map unhex)).map .date
    else if k == "dt" then (allSome (parts.map unhex)).map .dateTime
    else if k == "tm" then (allSome (parts.map unhex)).map .time
    else none
  | _ => none

def valueKind : PValue → String
  | .empty => "e" | .strs _ => "s" | .str _ => "t" | .tags _ => "tags" | .u8 _ => "u8" | .i16 _ => "i16"
  | .u16 _ => "u16" | .i32 _ => "i32" | .u32 _ => "u32" | .i64 _ => "i64" | .u64 _ => "u64" | .f32 _ => "f32"
  | .f64 _ => "f64" | .date _ => "da" | .dateTime _ => "dt" | .time _ => "tm"

def parseFrags : List String → Option (List Bytes × List String)
  | "(" :: "fr" :: h :: ")" :: r =>
    match unhex h, parseFrags r with
    | some b, some (fs, r') => some (b :: fs, r')
    | _, _ => none
  | r => some ([], r)

mutual
/-- elements up to (not including) the closing parenthesis / end of input; also the recorded
`bl=` (calculate_byte_len) of every primitive element, in document order -/
partial def parseElems (toks : List String) : Option (Elems × List Nat × List String) :=
  match toks with
  | "(" :: "el" :: tag :: vr :: len :: val :: bl :: ")" :: r =>
    match parseTag8 tag, VR.ofName? vr, len.toNat?, parseValue val, (bl.drop 3).toString.toNat?, parseElems r with
    | some t, some v, some l, some pv, some b, some (es, bls, r') => some (.cons (.prim t v l pv) es, b :: bls, r')
    | _, _, _, _, _, _ => none
  | "(" :: "sq" :: tag :: len :: r =>
    match parseTag8 tag, len.toNat?, parseItems r with
    | some t, some l, some (its, bl1, ")" :: r1) =>
      match parseElems r1 with
      | some (es, bl2, r2) => some (.cons (.seq t l its) es, bl1 ++ bl2, r2)
      | none => none
    | _, _, _ => none
  | "(" :: "px" :: "(" :: "bot" :: bot :: ")" :: r =>
    let botv := if bot == "-" then some [] else allSome ((splitComma bot).map String.toNat?)
    match botv, parseFrags r with
    | some b, some (fs, ")" :: r1) =>
      match parseElems r1 with
      | some (es, bl2, r2) => some (.cons (.pix b fs) es, bl2, r2)
      | none => none
    | _, _ => none
  | r => some (.nil, [], r)
partial def parseItems (toks : List String) : Option (Items × List Nat × List String) :=
  match toks with
  | "(" :: "it" :: len :: r =>
    match len.toNat?, parseElems r with
    | some l, some (es, bl1, ")" :: r1) =>
      match parseItems r1 with
      | some (its, bl2, r2) => some (.cons l es its, bl1 ++ bl2, r2)
      | none => none
    | _, _ => none
  | r => some (.nil, [], r)
end

/-- a whole tree (all tokens consumed) -/
def parseTree (toks : List String) : Option (Elems × List Nat) :=
  match parseElems toks with
  | some (es, bls, []) => some (es, bls)
  | _ => none

/-- split a token list at the first occurrence of `sep` -/
def splitAt (sep : String) (l : List String) : List String × List String :=
  (l.takeWhile (· ≠ sep), (l.dropWhile (· ≠ sep)).drop 1)

mutual
def elemDepth : Elem → Nat
  | .seq _ _ its => 1 + itemsDepth its
  | _ => 0
def itemsDepth : Items → Nat
  | .nil => 0
  | .cons _ es r => max (elemsDepth es) (itemsDepth r)
def elemsDepth : Elems → Nat
  | .nil => 0
  | .cons e r => max (elemDepth e) (elemsDepth r)
end

mutual
/-- primitive elements in document order -/
def elemPrims : Elem → List (Tag × VR × PValue)
  | .prim t vr _ v => [(t, vr, v)]
  | .seq _ _ its => itemsPrims its
  | .pix _ _ => []
def itemsPrims : Items → List (Tag × VR × PValue)
  | .nil => []
  | .cons _ es r => elemsPrims es ++ itemsPrims r
def elemsPrims : Elems → List (Tag × VR × PValue)
  | .nil => []
  | .cons e r => elemPrims e ++ elemsPrims r
end

mutual
def elemSeqTags : Elem → List Tag
  | .seq t _ its => t :: itemsSeqTags its
  | _ => []
def itemsSeqTags : Items → List Tag
  | .nil => []
  | .cons _ es r => elemsSeqTags es ++ itemsSeqTags r
def elemsSeqTags : Elems → List Tag
  | .nil => []
  | .cons e r => elemSeqTags e ++ elemsSeqTags r
end

mutual
def elemHasPix : Elem → Bool
  | .pix _ _ => true
  | .seq _ _ its => itemsHasPix its
  | _ => false
def itemsHasPix : Items → Bool
  | .nil => false
  | .cons _ es r => elemsHasPix es || itemsHasPix r
def elemsHasPix : Elems → Bool
  | .nil => false
  | .cons e r => elemHasPix e || elemsHasPix r
end

mutual
/-- does any sequence or item carry a defined (explicit) recorded length? -/
def elemHasExplicit : Elem → Bool
  | .seq _ l its => l != undefinedLen || itemsHasExplicit its
  | _ => false
def itemsHasExplicit : Items → Bool
  | .nil => false
  | .cons l es r => l != undefinedLen || elemsHasExplicit es || itemsHasExplicit r
def elemsHasExplicit : Elems → Bool
  | .nil => false
  | .cons e r => elemHasExplicit e || elemsHasExplicit r
end

/-- some text value of the tree (any depth) holds a byte ≥ 0x80: only generated under a declared ISO_IR 192
(UTF-8) set, where the writer's text codec is the identity on the UTF-8 bytes; the writer *model* only covers the
default repertoire, so for such trees the drivers apply the property oracle alone -/
def treeNonAscii (t : Dicom.Elems) : Bool :=
  (elemsPrims t).any fun p => match p.2.2 with
    | .str s => s.any (· ≥ 128)
    | .strs l => l.any (·.any (· ≥ 128))
    | _ => false

end Driver
