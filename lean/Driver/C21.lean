import DicomModel.Model.Util
import DicomModel.Model.Bytes
import DicomModel.Model.NativeFrames
import Driver.Loop
open Dicom Dicom.Native

/-
C21 driver. Line:
`nat bits spp rows cols frames form kind <stored hex> W <whole> F <f0> … <fn> S <s0> … <sn>`
results `ok:<hex>` | `err` | `panic`; slice `=` means "identical to the frame result of that index".
-/

inductive Res where
  | ok (b : Bytes)
  | fail (how : String)
deriving DecidableEq

def parseRes (t : String) : Option Res :=
  if t == "err" then some (.fail "err")
  else if t == "panic" then some (.fail "panic")
  else if t == "none" then some (.fail "none")
  else if t.startsWith "ok:" then (unhex (t.drop 3).toString).map .ok
  else none

def Res.show : Res → String
  | .ok b => "ok:" ++ hexOf b
  | .fail h => h

def ofOpt : Option Bytes → Res
  | some b => .ok b
  | none => .fail "err"

def short (s : String) : String := if s.length > 120 then (s.take 120).toString ++ "…" else s

def splitAt (sep : String) (l : List String) : List String × List String :=
  (l.takeWhile (· ≠ sep), (l.dropWhile (· ≠ sep)).drop 1)

def handle (line : String) : String :=
  match tokens line with
  | "nat" :: bits :: spp :: rows :: cols :: frames :: form :: kind :: stored :: "W" :: wholeT :: "F" :: rest =>
    match bits.toNat?, spp.toNat?, rows.toNat?, cols.toNat?, frames.toNat?, unhex stored, parseRes wholeT with
    | some bits, some spp, some rows, some cols, some frames, some data, some whole =>
      let (frT, slT) := splitAt "S" rest
      match frT.mapM parseRes with
      | none => "BAD-LINE"
      | some frs =>
      if frs.length ≠ frames + 1 ∨ slT.length ≠ frames + 1 then "BAD-LINE" else
      -- slices: `=` → same as frame result
      let slsO := (List.range (frames + 1)).mapM fun f =>
        let t := slT.getD f ""
        if t == "=" then some (frs.getD f (.fail "")) else parseRes t
      match slsO with
      | none => "BAD-LINE"
      | some sls =>
      let I : Img := { bits := bits, spp := spp, rows := rows, cols := cols, frames := frames }
      let wellFormed : Bool := kind == "exact" && I.exactBytes ≤ data.length && data.length ≤ I.exactBytes + 1
      let unaligned : Bool := bits == 1 && I.frameSamples % 8 ≠ 0
      let sub : String :=
        if unaligned then "onebit-nonmultiple8"
        else if bits == 1 then "onebit"
        else if data.length ≠ I.exactBytes then "padded-odd-length"
        else "native"
      -- 1. the property's oracle on the implementation's outputs (well-formed images only)
      let wantLen := I.frameSamples * I.bytesPerSample * frames
      let wholeBad : Bool := match whole with | .ok w => w.length ≠ wantLen | _ => true
      if wellFormed && wholeBad then
        s!"PROP-FAIL class={sub}-whole-len whole-object result {match whole with | .ok w => toString w.length | .fail h => h} bytes, want {wantLen}"
      else
      let badFrame := (List.range frames).find? fun f => frs.getD f (.fail "") ≠ .ok (expectedFrame I data f)
      if wellFormed && badFrame.isSome then
        let f := badFrame.getD 0
        s!"PROP-FAIL class={sub}-frame-content frame {f}: impl={short ((frs.getD f (.fail "")).show)} want=ok:{short (hexOf (expectedFrame I data f))}"
      else
      let badSlice := (List.range frames).find? fun f => sls.getD f (.fail "") ≠ frs.getD f (.fail "")
      if wellFormed && badSlice.isSome then
        let f := badSlice.getD 0
        s!"PROP-FAIL class={sub}-frame-vs-slice frame {f}: decode_pixel_data_frame={short ((frs.getD f (.fail "")).show)} frame_data(whole)={short ((sls.getD f (.fail "")).show)}"
      else
      -- 2. model against implementation (all inputs)
      let mWhole := ofOpt (decodeWhole I data)
      if mWhole ≠ whole then s!"MODEL-DIFF whole model={short mWhole.show} impl={short whole.show}" else
      match (List.range (frames + 1)).find? fun f => ofOpt (decodeFrame I data f) ≠ frs.getD f (.fail "") with
      | some f => s!"MODEL-DIFF frame {f} model={short ((ofOpt (decodeFrame I data f)).show)} impl={short ((frs.getD f (.fail "")).show)}"
      | none =>
      let mSl := fun f => match whole with | .ok w => ofOpt (frameData I w f) | .fail _ => Res.fail "none"
      match (List.range (frames + 1)).find? fun f => mSl f ≠ sls.getD f (.fail "") with
      | some f => s!"MODEL-DIFF slice {f} model={short ((mSl f).show)} impl={short ((sls.getD f (.fail "")).show)}"
      | none =>
        let fcls := if frames = 1 then "f1" else if frames ≤ 3 then "f2-3" else "f4-7"
        let al := if bits == 1 then (if unaligned then "-unaligned" else "-aligned") else ""
        let par := if data.length % 2 = 1 then "-odd" else ""
        let wcls := match whole with | .ok _ => "ok" | .fail _ => "fail"
        s!"ok nat-b{bits}-s{spp}-{fcls}-{form}-{kind}{al}{par}-{wcls}"
    | _, _, _, _, _, _, _ => "BAD-LINE"
  | "nat" :: _ => "MODEL-DIFF harness could not build the object"
  | _ => "BAD-LINE"

def main : IO Unit := Driver.run handle
