import DicomModel.Model.Util
import DicomModel.Model.CmdSet
import Driver.Loop
open Dicom Dicom.Cmd

def vrOf (s : String) : Option VR :=
  match s with
  | "UI" => some .UI | "US" => some .US | "UL" => some .UL | "AE" => some .AE
  | "LO" => some .LO | "AT" => some .AT | "CS" => some .CS | "SH" => some .SH
  | _ => none

def natsOf (ts : List String) : Option (List Nat) := ts.mapM String.toNat?
def bytesOf (ts : List String) : Option (List Bytes) := ts.mapM unhex

/-- parse `n` elements `tag vr kind …` -/
def parseElems : Nat → List String → Option (List Elem × List String)
  | 0, ts => some ([], ts)
  | n + 1, tag :: vr :: kind :: ts =>
    match tag.toNat?, vrOf vr with
    | some t, some v =>
      let fin (val : Val) (rest : List String) : Option (List Elem × List String) :=
        match parseElems n rest with
        | some (es, r) => some (⟨t, v, val⟩ :: es, r)
        | none => none
      match kind, ts with
      | "e", rest => fin .empty rest
      | "s", h :: rest => match unhex h with | some b => fin (.str b) rest | none => none
      | "ss", k :: rest =>
        match k.toNat? with
        | some k => match bytesOf (rest.take k) with
          | some bs => if (rest.take k).length = k then fin (.strs bs) (rest.drop k) else none
          | none => none
        | none => none
      | "u16", k :: rest =>
        match k.toNat? with
        | some k => match natsOf (rest.take k) with
          | some l => if (rest.take k).length = k then fin (.u16s l) (rest.drop k) else none
          | none => none
        | none => none
      | "u32", k :: rest =>
        match k.toNat? with
        | some k => match natsOf (rest.take k) with
          | some l => if (rest.take k).length = k then fin (.u32s l) (rest.drop k) else none
          | none => none
        | none => none
      | "at", k :: rest =>
        match k.toNat? with
        | some k => match natsOf (rest.take k) with
          | some l => if (rest.take k).length = k then fin (.tags l) (rest.drop k) else none
          | none => none
        | none => none
      | _, _ => none
    | _, _ => none
  | _, _ => none

def hasDupCmdTag (es : List Elem) : Bool :=
  let ts := (others es).map (·.tag)
  ts.eraseDups.length ≠ ts.length

def isOddText (e : Elem) : Bool :=
  match e.val with
  | .str s => s.length % 2 = 1
  | .strs ss => (joinBs ss).length % 2 = 1
  | _ => false

def isMulti (e : Elem) : Bool :=
  match e.val with
  | .strs ss => ss.length ≠ 1
  | .u16s l | .u32s l | .tags l => l.length ≠ 1
  | _ => false

def vrBit (v : VR) : Nat :=
  match v with
  | .UI => 1 | .US => 2 | .UL => 4 | .AE => 8 | .LO => 16 | .AT => 32 | _ => 64

def handle (line : String) : String :=
  match tokens line with
  | "cmd" :: n :: ts =>
    match n.toNat? with
    | none => "BAD-LINE"
    | some n =>
    match parseElems n ts with
    | some (es, ["W", w, "GL", gl]) =>
      match unhex w, gl.toNat? with
      | some wb, some glv =>
        -- 1. the property, on the implementation's bytes
        match recordedVsActual wb with
        | none => s!"PROP-FAIL class=written-command-set-malformed bytes={w}"
        | some (rec, act) =>
          if rec ≠ act then
            let cls := if hasDupCmdTag es then "duplicate-tag-counted-twice" else "group-length-mismatch"
            s!"PROP-FAIL class={cls} recorded={rec} actual={act}"
          else if glv ≠ rec then s!"PROP-FAIL class=group-length-element-differs-from-written api={glv} written={rec}"
          else
          -- 2. the model
          let mb := encodeImplicit (command es)
          if mb ≠ wb then s!"MODEL-DIFF bytes model={hexOf mb} impl={w}"
          else if cmdLen (collect es) ≠ rec then s!"MODEL-DIFF cmdLen model={cmdLen (collect es)} impl={rec}"
          else
            let cmds := others es
            if cmds.isEmpty then "ok trivial-empty" else
            let vrs := (cmds.map (vrBit ·.vr)).eraseDups.foldl (· + ·) 0
            let sz := if cmds.length = 1 then "1" else if cmds.length ≤ 4 then "few" else "many"
            let f (b : Bool) (s : String) := if b then s else ""
            s!"ok n{sz}-vr{vrs}{f (hasDupCmdTag es) "-dup"}{f (cmds.any isOddText) "-odd"}{f (cmds.any isMulti) "-multi"}{f (es.any (·.group ≠ 0)) "-othergrp"}{f (es.any (·.tag = 0)) "-gl0"}{f (cmds.any (·.val = .empty)) "-empty"}"
      | _, _ => "BAD-LINE"
    | _ => "BAD-LINE"
  | _ => "BAD-LINE"

def main : IO Unit := Driver.run handle
