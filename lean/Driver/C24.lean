import DicomModel.Model.Util
import DicomModel.Model.Json
import DicomModel.Model.JsonWire
import Driver.Loop
open Dicom Dicom.Json Dicom.Json.Wire

/-- result token group: `ok <json>` | `err` | `panic` -/
def parseRes : P (Outcome J)
  | "ok" :: r => (parseJ r).map fun (j, r') => (.ok j, r')
  | "err" :: r => some (.err, r)
  | "panic" :: r => some (.panic, r)
  | _ => none

/-! data-aware part of the oracle: the members follow the elements (key, vr) and the values of the
clauses the statement spells out (binary = base64 of the LE bytes, AT = hex tag, binary numbers =
the numbers, sequences = one object per item) -/

def numIs (i : Int) : J → Bool
  | .num n => intOfNum n == some i
  | _ => false

def floatIs (F : Flt.Fmt) (x : Nat) : J → Bool
  | .num (.flt b) => Flt.isFinite F x && (if F == Flt.b32 then Flt.castFF Flt.b64 Flt.b32 b == x else b == x)
  | .num (.pos n) => Flt.isFinite F x && Flt.castNat F n == x
  | .num (.neg n) => Flt.isFinite F x && Flt.castInt F (- Int.ofNat n) == x
  | .str s => (s == sNaN && Flt.isNaN F x) || (s == sInf && Flt.isInf F x && !Flt.sign F x)
      || (s == sNegInf && Flt.isInf F x && Flt.sign F x)
  | _ => false

def zipAll {α β : Type} (f : α → β → Bool) : List α → List β → Bool
  | [], [] => true
  | a :: as, b :: bs => f a b && zipAll f as bs
  | _, _ => false

def valueAgrees (vr : VR) (p : Prim) (ms : List (Bytes × J)) : Bool :=
  if !p.nonEmpty then true else      -- a value without items: no member to look at
  match fClass vr, p with
  | _, .empty => true
  | .binary, p =>
    (match lookup kInline ms with
     | some (.str s) => b64dec s == some (toBytes p)
     | _ => false)
  | .at, .tags l =>
    (match lookup kValue ms with
     | some (.arr xs) => zipAll (fun t x => match x with
        | .str s => s == tagKey t
        | _ => false) l xs
     | _ => false)
  | .int _ _, p =>
    let ints : Option (List Int) := match p with
      | .i16 l => some l
      | .i32 l => some l
      | .u16 l => some (l.map Int.ofNat)
      | .u32 l => some (l.map Int.ofNat)
      | _ => none
    (match ints, lookup kValue ms with
     | some l, some (.arr xs) => zipAll numIs l xs
     | none, _ => true
     | _, _ => false)
  | .float, .f32 l =>
    (match lookup kValue ms with
     | some (.arr xs) => zipAll (floatIs Flt.b32) l xs
     | _ => false)
  | .float, .f64 l =>
    (match lookup kValue ms with
     | some (.arr xs) => zipAll (floatIs Flt.b64) l xs
     | _ => false)
  | _, _ => true

mutual
partial def agreesDs (ds : List Elem) : J → Bool
  | .obj ms => zipAll (fun e (m : Bytes × J) => m.1 == tagKey e.tag && agreesElem e m.2) ds ms
  | _ => false
partial def agreesElem (e : Elem) : J → Bool
  | .obj fs =>
    (match lookup kVr fs with
     | some (.str v) => v == vrName e.vr
     | _ => false) &&
    (match e with
     | .prim _ vr p => valueAgrees vr p fs
     | .seq _ _ [] => true
     | .seq _ _ items =>
       (match lookup kValue fs with
        | some (.arr xs) => zipAll agreesDs items xs
        | _ => false)
     | .pix _ _ => true)
  | _ => false
end

/-- an AT value written in the `Display` form `(GGGG,EEEE)` (defect #8 of DESIGN §7) -/
partial def hasParenTag : J → Bool
  | .obj ms =>
    (match lookup kVr ms, lookup kValue ms with
     | some (.str v), some (.arr xs) => v == vrName .AT && xs.any fun x => match x with
        | .str s => s.length == 11 && s.head? == some 40
        | _ => false
     | _, _ => false) || ms.any fun (_, v) => hasParenTag v
  | .arr xs => xs.any hasParenTag
  | _ => false

/-- the oracle on one real output; `none` = conforms -/
def oracle (which : String) (ds : DataSet) (full : Bool) (r : Outcome J) : Option String :=
  match r with
  | .err => some s!"PROP-FAIL class=serialise-err {which}"
  | .panic => some s!"PROP-FAIL class=serialise-panic {which}"
  | .ok j =>
    if annexF j then
      if agreesDs ds j then none else some s!"PROP-FAIL class=annexf-values {which} out={showJ j}"
    else if annexFWith true j then
      -- only the "empty value has no Value member" clause fails
      if full then some s!"PROP-FAIL class=annexf {which} (empty member without empty value) out={showJ j}"
      else some s!"PROP-FAIL class=empty-value-has-member {which} out={showJ j}"
    else if hasParenTag j then some s!"PROP-FAIL class=at-display-form {which} out={showJ j}"
    else some s!"PROP-FAIL class=annexf {which} out={showJ j}"

def cmpOutcome (approx : Bool) (m r : Outcome J) : Bool :=
  match m, r with
  | .ok a, .ok b => if approx then approxJ a b else beqJ a b
  | .err, .err => true
  | .panic, .panic => true
  | _, _ => false

mutual
partial def depthDs (ds : List Elem) : Nat := (ds.map depthElem).foldl max 0
partial def depthElem : Elem → Nat
  | .seq _ _ items => 1 + (items.map depthDs).foldl max 0
  | _ => 0
end

mutual
partial def flagsDs (ds : List Elem) : List String := ds.flatMap flagsElem
partial def flagsElem : Elem → List String
  | .prim _ vr p =>
    let c := match serClass vr with
      | .strings => "S" | .person => "P" | .numbers => "N" | .binary => "B" | .sq => "Q"
    let extra : List String := match p with
      | .empty => ["empty"]
      | .f32 l => if l.any (fun x => !Flt.isFinite Flt.b32 x) then ["nonfinite"] else []
      | .f64 l => if l.any (fun x => !Flt.isFinite Flt.b64 x) then ["nonfinite"] else []
      | .i64 l => if l.any (fun i => !fitsI32 i) then ["big"] else []
      | .u64 l => if l.any (fun n => n > 2147483647) then ["big"] else []
      | .date _ => ["date"] | .dateTime _ => ["date"] | .time _ => ["date"]
      | .tags _ => ["tags"]
      | _ => []
    c :: extra
  | .seq _ _ items => "Q" :: items.flatMap flagsDs
  | .pix _ _ => ["pix"]
end

def dedupStr (l : List String) : List String := l.foldl (fun acc s => if acc.contains s then acc else acc ++ [s]) []

def handle (line : String) : String :=
  match tokens line with
  | "ser" :: rest =>
    match parseDs rest with
    | some (ds, r1) =>
      match parseRes r1 with
      | some (rv, r2) =>
        match parseRes r2 with
        | some (rs, []) =>
          if !ds.wf then "MODEL-DIFF data set of the implementation is not tag-sorted" else
          let typed := elemsTyped ds
          let full := elemsFull ds
          -- the property, on both real outputs (always first)
          let o1 := if typed then oracle "to_value" ds full rv else none
          let o2 := if typed then oracle "to_string" ds full rs else none
          match o1, o2 with
          | some f, _ => f
          | none, some f => f
          | none, none =>
            let m := toJson ds
            if !cmpOutcome false m rv then
              s!"MODEL-DIFF to_value model={showOutcomeJ m} impl={showOutcomeJ rv}"
            else if !cmpOutcome true m rs then
              s!"MODEL-DIFF to_string model={showOutcomeJ m} impl={showOutcomeJ rs}"
            else
              let fl := dedupStr (flagsDs ds)
              let cls := match m with
                | .ok _ => "ok" | .err => "err" | .panic => "panic"
              if ds.isEmpty then "ok trivial-empty"
              else s!"ok {if typed then "typed" else "illtyped"}-{cls}-d{depthDs ds}-{"".intercalate (fl.mergeSort (· ≤ ·))}"
        | _ => "BAD-LINE"
      | none => "BAD-LINE"
    | none => "BAD-LINE"
  | _ => "BAD-LINE"

def main : IO Unit := Driver.run handle
