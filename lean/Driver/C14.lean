import DicomModel.Model.Util
import DicomModel.Model.TagTextStd
import Driver.Loop
/-!
Driver for C14. `gen`: one `kw <hex>` line per dictionary keyword (generated table) for the harness.
`check`: per case line, first the property's oracle on the implementation's answer
(`specTagOfText` = the three layouts with hex digits of either case; selectors: parse(print s) = s;
keywords: the tag of the table entry carrying the keyword), then the model
(`parseTag`, `printTag`, `printSelector`, `stdParseSelector`, `stdParseTag`).
-/
open Dicom Dicom.Dict Dicom.TagText

def natHex (n : Nat) : String :=
  if n = 0 then "-" else
    let d := Nat.toDigits 16 n
    String.ofList (if d.length % 2 = 1 then '0' :: d else d)

def sp (l : List String) : String := " ".intercalate l

def renderTagRes : Outcome Tag → List String
  | .ok t => ["ok", toString t.1, toString t.2]
  | .err _ => ["err"]
  | .panic => ["panic"]

def renderKey : KeyOutcome → List String
  | .tag t => ["ok", toString t.1, toString t.2]
  | .unknown => ["none"]
  | .panic => ["panic"]

def renderSel (s : Selector) : List String :=
  toString s.path.length ::
    (s.path.flatMap fun p => [toString p.1.1, toString p.1.2, toString p.2]) ++ [toString s.leaf.1, toString s.leaf.2]

def renderSelRes : SelOutcome Selector → List String
  | .ok s => "ok" :: renderSel s
  | .err _ => ["err"]
  | .panic => ["panic"]

def selErrName : SelOutcome Selector → String
  | .ok s => s!"ok-depth{min (s.path.length + 1) 5}"
  | .err .missingItemDelimiter => "err-delim"
  | .err .parseKey => "err-key"
  | .err .parseItemIndex => "err-index"
  | .err .parseLeaf => "err-leaf"
  | .panic => "panic"

/-- parse `k (g e item)*k g e` -/
def readSel (k : Nat) (toks : List String) : Option (Selector × List String) :=
  let rec go : Nat → List String → List (Tag × Nat) → Option (Selector × List String)
    | 0, g :: e :: rest, acc =>
      match g.toNat?, e.toNat? with
      | some g, some e => some (⟨acc.reverse, (g, e)⟩, rest)
      | _, _ => none
    | n + 1, g :: e :: i :: rest, acc =>
      match g.toNat?, e.toNat?, i.toNat? with
      | some g, some e, some i => go n rest (((g, e), i) :: acc)
      | _, _, _ => none
    | _, _, _ => none
  go k toks []

def strClass (bs : Bytes) : String :=
  let len := if bs.length = 8 ∨ bs.length = 9 ∨ bs.length = 11 then s!"len{bs.length}" else
    if bs.isEmpty then "empty" else "otherlen"
  let mb := if bs.any (· ≥ 128) then "multibyte" else "ascii"
  s!"{len}-{mb}"

def handle (line : String) : String :=
  match tokens line with
  | "tagrt" :: g :: e :: disp :: form :: case :: text :: res =>
    match g.toNat?, e.toNat?, unhex disp, unhex text with
    | some g, some e, some disp, some text =>
      if g ≥ 65536 ∨ e ≥ 65536 then "BAD-LINE" else
      -- oracle: the text is a form of (g,e) and must parse back to it
      if specTagOfText text ≠ some (g, e) then s!"BAD-LINE generator: text is not a form of the tag"
      else if res ≠ ["ok", toString g, toString e] then
        s!"PROP-FAIL class=tag-roundtrip tag=({g},{e}) text={hexOf text} impl={sp res}"
      else if specTagOfText disp ≠ some (g, e) then s!"PROP-FAIL class=tag-display tag=({g},{e}) printed={hexOf disp}"
      else if tagForm .paren true (g, e) ≠ disp ∧ tagForm .paren false (g, e) ≠ disp then
        s!"MODEL-DIFF display model={hexOf (printTag (g, e))} impl={hexOf disp}"
      else if renderTagRes (parseTag text) ≠ res then s!"MODEL-DIFF parse model={sp (renderTagRes (parseTag text))} impl={sp res}"
      else
        -- the model's own printer for the two pure-case variants
        let f := if form == "0" then Form.paren else if form == "1" then Form.comma else Form.plain
        if case == "0" ∧ tagForm f true (g, e) ≠ text then "MODEL-DIFF tagForm upper"
        else if case == "1" ∧ tagForm f false (g, e) ≠ text then "MODEL-DIFF tagForm lower"
        else s!"ok tagrt-form{form}-case{case}"
    | _, _, _, _ => "BAD-LINE"
  | "str" :: text :: res =>
    match unhex text with
    | some text =>
      if res.isEmpty then "BAD-LINE" else
      match specTagOfText text with
      | some t =>
        if res ≠ ["ok", toString t.1, toString t.2] then
          s!"PROP-FAIL class=tag-accept text={hexOf text} want=ok {t.1} {t.2} impl={sp res}"
        else if renderTagRes (parseTag text) ≠ res then s!"MODEL-DIFF parse model={sp (renderTagRes (parseTag text))} impl={sp res}"
        else s!"ok str-accepted-{strClass text}"
      | none =>
        if res = ["panic"] then s!"PROP-FAIL class=tag-parse-panic text={hexOf text}"
        else if res ≠ ["err"] then s!"PROP-FAIL class=tag-reject text={hexOf text} impl={sp res}"
        else if renderTagRes (parseTag text) ≠ res then s!"MODEL-DIFF parse model={sp (renderTagRes (parseTag text))} impl={sp res}"
        else if text.isEmpty then "ok trivial-str-empty"
        else
          let kind := match parseTag text with
            | .err .start => "start" | .err .separator => "separator" | .err .end_ => "end"
            | .err .length => "length" | .err .number => "number" | _ => "?"
          s!"ok str-rejected-{kind}-{strClass text}"
    | none => "BAD-LINE"
  | "sel" :: k :: rest =>
    match k.toNat? with
    | some k =>
      match readSel k rest with
      | some (sel, printed :: res) =>
        match unhex printed with
        | some printed =>
          if res ≠ "ok" :: renderSel sel then
            s!"PROP-FAIL class=selector-roundtrip selector={sp (renderSel sel)} printed={hexOf printed} impl={sp res}"
          else if printSelector sel ≠ printed then
            s!"MODEL-DIFF selector display model={hexOf (printSelector sel)} impl={hexOf printed}"
          else if renderSelRes (stdParseSelector printed) ≠ res then
            s!"MODEL-DIFF selector parse model={sp (renderSelRes (stdParseSelector printed))} impl={sp res}"
          else
            let big := sel.path.any (fun p => p.2 ≥ 4294967295)
            s!"ok sel-depth{min (k + 1) 5}{if big then "-maxitem" else ""}"
        | none => "BAD-LINE"
      | _ => "BAD-LINE"
    | none => "BAD-LINE"
  | "seltext" :: text :: res =>
    match unhex text with
    | some text =>
      if res.isEmpty then "BAD-LINE"
      else if res = ["panic"] then s!"PROP-FAIL class=selector-panic text={hexOf text}"
      else
        let m := stdParseSelector text
        -- ORACLE (documented selector syntax, `Props/C14`: keys are tags in an accepted text form or dictionary
        -- keywords): a text of the syntax must be accepted, any other text rejected
        let mOk : Bool := match m with | .ok _ => true | _ => false
        let mErr : Bool := match m with | .err _ => true | _ => false
        if res == ["err"] && mOk then
          s!"PROP-FAIL class=selector-syntax-rejected text={hexOf text} a selector whose keys are tags in an accepted form / dictionary keywords is refused; expected {sp (renderSelRes m)}"
        else if res.head? == some "ok" && mErr then
          s!"PROP-FAIL class=selector-accepts-malformed text={hexOf text} impl={sp res}"
        else if renderSelRes m ≠ res then s!"MODEL-DIFF selector parse text={hexOf text} model={sp (renderSelRes m)} impl={sp res}"
        else if text.isEmpty then "ok trivial-seltext-empty"
        else s!"ok seltext-{selErrName m}"
    | none => "BAD-LINE"
  | "kw" :: kw :: rest =>
    match unhex kw with
    | some kwb =>
      let a := natOfBytes kwb
      -- split the rest: key result (`ok g e` | `none` | `panic`), item, text, selector result
      let (kres, rest) := match rest with
        | "ok" :: g :: e :: r => (["ok", g, e], r)
        | x :: r => ([x], r)
        | [] => ([], [])
      match rest with
      | item :: text :: sres =>
        match item.toNat?, unhex text with
        | some item, some text =>
          let rows := Gen.entries.filter (fun r => r.alias == a)
          let want : Option Tag := match rows with
            | r :: _ => some (r.group, r.elem)
            | [] => none
          match want with
          | some t =>
            -- the statement: every dictionary keyword used in a selector resolves to that keyword's tag
            let it := if text.contains 0x5B then item else 0
            if kres ≠ ["ok", toString t.1, toString t.2] then
              s!"PROP-FAIL class=keyword-resolves keyword={kw} want=ok {t.1} {t.2} impl={sp kres}"
            else if sres ≠ "ok" :: renderSel ⟨[(t, it)], t⟩ then
              s!"PROP-FAIL class=keyword-in-selector text={hexOf text} want={sp ("ok" :: renderSel ⟨[(t, it)], t⟩)} impl={sp sres}"
            else if renderKey (stdParseTag kwb) ≠ kres then s!"MODEL-DIFF parse_tag model={sp (renderKey (stdParseTag kwb))} impl={sp kres}"
            else if renderSelRes (stdParseSelector text) ≠ sres then
              s!"MODEL-DIFF keyword selector model={sp (renderSelRes (stdParseSelector text))} impl={sp sres}"
            else s!"ok kw-{if it = 0 ∧ !text.contains 0x5B then "implicit-item" else "item"}"
          | none =>
            if renderKey (stdParseTag kwb) ≠ kres then s!"MODEL-DIFF parse_tag model={sp (renderKey (stdParseTag kwb))} impl={sp kres}"
            else if renderSelRes (stdParseSelector text) ≠ sres then
              s!"MODEL-DIFF keyword selector model={sp (renderSelRes (stdParseSelector text))} impl={sp sres}"
            else s!"ok kw-not-in-table-{if kres = ["none"] then "unknown" else "static"}"
        | _, _ => "BAD-LINE"
      | _ => "BAD-LINE"
    | none => "BAD-LINE"
  | _ => "BAD-LINE"

def main (args : List String) : IO Unit := do
  match args with
  | ["gen"] =>
    let out ← IO.getStdout
    let mut i := 0
    for r in Gen.entries do
      out.putStrLn s!"#K{i} kw {natHex r.alias}"
      i := i + 1
    out.putStrLn s!"#K{i} kw {natHex glAlias}"
    out.putStrLn s!"#K{i+1} kw {natHex pcAlias}"
    out.flush
  | _ => Driver.run handle
