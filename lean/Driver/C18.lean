import DicomModel.Model.Util
import DicomModel.Model.Encap
import Driver.Loop
open Dicom Dicom.Encap

/-! Driver for C18: evaluates the property's oracle on the implementation's output (first), then
compares with the model of `DicomModel.Model.Encap`. -/

def parseCsv (s : String) : Option (List Nat) :=
  if s == "-" then some [] else (s.splitOn ",").mapM String.toNat?

def parseOptNat (s : String) : Option (Option Nat) :=
  if s == "none" then some none else s.toNat?.map some

/-- `n tok₁ … tokₙ rest…` → (decoded tokens, rest) -/
def takeCounted {α : Type} (dec : String → Option α) : List String → Option (List α × List String)
  | [] => none
  | n :: rest =>
    match n.toNat? with
    | none => none
    | some k =>
      if k ≤ rest.length then
        match (rest.take k).mapM dec with
        | some xs => some (xs, rest.drop k)
        | none => none
      else none

def decFpd (s : String) : Option (Option Bytes) :=
  if s == "none" then some none
  else if s.startsWith "s:" then (unhex (s.drop 2).toString).map some
  else none

/-- split the token list at `=>` -/
def splitArrow : List String → Option (List String × List String)
  | [] => none
  | t :: ts => if t == "=>" then some ([], ts) else
    match splitArrow ts with
    | some (a, b) => some (t :: a, b)
    | none => none

structure SeqRes where
  table : List Nat
  frags : List Bytes
  fpd : List (Option Bytes)

/-- `ok <table> <n> frags… <k> fpd…` -/
def parseSeqRes : List String → Option SeqRes
  | "ok" :: tb :: rest =>
    match parseCsv tb, takeCounted unhex rest with
    | some table, some (frags, rest2) =>
      match takeCounted decFpd rest2 with
      | some (fpd, []) => some ⟨table, frags, fpd⟩
      | _ => none
    | _, _ => none
  | _ => none

def allZero (bs : Bytes) : Bool := bs.all (· == 0)

/-- greedy partition of the fragments over the frames: a frame takes fragments until it has at
least its own length (an empty frame takes none) -/
def takeFrame : Nat → Nat → List Bytes → Option (List Bytes × List Bytes)
  | _, 0, rest => some ([], rest)
  | 0, _, _ => none
  | _, _, [] => none
  | fuel + 1, need, f :: rest =>
    if f.length ≥ need then some ([f], rest)
    else if f.length = 0 then none
    else match takeFrame fuel (need - f.length) rest with
      | some (g, r) => some (f :: g, r)
      | none => none

def partitionFrames : List Bytes → List Bytes → Option (List (List Bytes))
  | [], [] => some []
  | [], _ :: _ => none
  | d :: ds, frags =>
    match takeFrame (frags.length + 1) d.length frags with
    | none => none
    | some (g, rest) =>
      match partitionFrames ds rest with
      | some gs => some (g :: gs)
      | none => none

def lenClass (n : Nat) : String :=
  if n = 0 then "0" else if n % 2 = 1 then "odd" else "even"

def cntClass (n : Nat) : String :=
  if n = 0 then "0" else if n = 1 then "1" else if n ≤ 4 then "few" else "many"

def showFpd : Option Bytes → String
  | none => "none"
  | some b => "s:" ++ hexOf b

def shortList (l : List Nat) : String := ",".intercalate (l.map toString)

/-- property oracle for a helper result. `ds` = the frames given, returns error text or the groups -/
def helperOracle (ds : List Bytes) (fs0 : Bool) (r : SeqRes) : Except String (List (List Bytes)) :=
  if r.frags.any (fun f => f.length % 2 = 1) then .error "class=odd-fragment" else
  match partitionFrames ds r.frags with
  | none => .error "class=data-lost fragments do not cover the frames"
  | some groups =>
    let bad := (ds.zip groups).any fun (d, g) =>
      let c := g.flatten
      !(c.take d.length == d && allZero (c.drop d.length)
        && (if fs0 then decide (c.length ≤ d.length + 1) else true))
    if bad then .error "class=data-lost concatenated fragments are not the frame data plus padding" else
    if ds.length ≥ 1 ∧ r.table.length ≠ ds.length then
      .error s!"class=bot-len entries={r.table.length} frames={ds.length}" else
    if ds.length ≥ 1 ∧ r.table ≠ prefixOffsets 0 groups then
      .error s!"class=bot-entry table={shortList r.table} want={shortList (prefixOffsets 0 groups)}" else
    -- a frame without data has no fragments: "its fragment bytes" is only asked for real frames
    let fpdBad := (List.range ds.length).any fun i =>
      !(groups.getD i []).isEmpty && r.fpd[i]? != some (some (groups.getD i []).flatten)
    if fpdBad then .error "class=frame-data frame_pixel_data differs from the frame's fragments" else
    .ok groups

def outcomeStr (o : Outcome (List Nat × List Bytes)) : String :=
  match o with
  | .panic => "panic"
  | .ok (t, f) => s!"ok table={shortList t} frags={f.map hexOf}"

/-- common tail for single / encap / multi -/
def judgeHelper (kind : String) (ds : List Bytes) (fs : Nat) (fs0 : Bool) (attr : Option Nat)
    (model : Outcome (List Nat × List Bytes)) (overflow : Bool) (res : List String) : String :=
  if overflow then s!"ok trivial-{kind}-u32-overflow" else
  if res = ["panic"] then
    match model with
    | .panic => s!"ok trivial-{kind}-precondition-panic"
    | .ok _ => s!"PROP-FAIL class=helper-panic {kind} fs={fs} lens={ds.map List.length}"
  else
  if res.head? = some "huge" then s!"MODEL-DIFF {kind} fs={fs} impl made fragments of {res.drop 1} bytes" else
  match parseSeqRes res with
  | none => "BAD-LINE"
  | some r =>
    match helperOracle ds fs0 r with
    | .error e => s!"PROP-FAIL {e}"
    | .ok groups =>
      match model with
      | .panic => s!"MODEL-DIFF model=panic impl=ok"
      | .ok (mt, mf) =>
        if mt ≠ r.table ∨ mf ≠ r.frags then
          s!"MODEL-DIFF model={outcomeStr model} impl table={shortList r.table} frags={r.frags.map hexOf}"
        else
        let mfpd := (List.range r.fpd.length).map fun i => framePixelData attr mt mf i
        if mfpd ≠ r.fpd then s!"MODEL-DIFF fpd model={mfpd.map showFpd} impl={r.fpd.map showFpd}" else
        let maxPad := (ds.zip groups).foldl (fun m (d, g) => max m (g.flatten.length - d.length)) 0
        let maxFr := groups.foldl (fun m g => max m g.length) 0
        let triv := if ds.all (·.isEmpty) then "trivial-" else ""
        s!"ok {triv}{kind}-n{cntClass ds.length}-fs{if fs = 0 then "0" else lenClass fs}-frags{cntClass maxFr}-pad{cntClass maxPad}-{if ds.any (·.isEmpty) then "emptyframe" else if ds.any (fun d => d.length % 2 = 1) then "oddlen" else "evenlen"}"

def uidName (uid : String) : String :=
  if uid == "1.2.840.10008.1.2.1.98" then "uncompressed"
  else if uid == "1.2.840.10008.1.2.8.1" then "deflated-frame"
  else if uid == "1.2.840.10008.1.2.4.50" then "jpeg-baseline"
  else uid

def pattern (a b i : Nat) : Nat := (a * i + b) % 251 + 1

def parseSample (s : String) : Option (Nat × Nat) :=
  match s.splitOn ":" with
  | [p, v] => match p.toNat?, v.toNat? with
    | some p, some v => some (p, v)
    | _, _ => none
  | _ => none

def handle (line : String) : String :=
  match splitArrow (tokens line) with
  | none => "BAD-LINE"
  | some (inp, res) =>
  match inp with
  | ["single", attr, fs, data] =>
    match parseOptNat attr, fs.toNat?, unhex data with
    | some attr, some fs, some d =>
      let overflow := match effSize d.length fs with | .panic => true | .ok _ => false
      judgeHelper "single" [d] fs (fs = 0) attr (encapsulateSingle d fs) overflow res
    | _, _, _ => "BAD-LINE"
  | "encap" :: n :: ds =>
    match n.toNat?, ds.mapM unhex with
    | some n, some ds =>
      if ds.length ≠ n then "BAD-LINE" else
      judgeHelper "encap" ds 0 true (some n) (encapsulate ds) false res
    | _, _ => "BAD-LINE"
  | "multi" :: fs :: n :: ds =>
    match fs.toNat?, n.toNat?, ds.mapM unhex with
    | some fs, some n, some ds =>
      if ds.length ≠ n then "BAD-LINE" else
      let model := match mapFrames fs ds with
        | .ok frs => fromFrames frs
        | .panic => .panic
      judgeHelper "multi" ds fs (fs = 0) (some n) model false res
    | _, _, _ => "BAD-LINE"
  | "fpd" :: attr :: n :: shape :: table :: rest =>
    match parseOptNat attr, n.toNat?, parseCsv shape, parseCsv table, takeCounted unhex rest with
    | some attr, some n, some shape, some table, some (frags, []) =>
      -- rebuild the frame structure from the shape
      let groups : List (List Bytes) := (shape.foldl (fun (acc : List (List Bytes) × List Bytes) k =>
        (acc.1 ++ [acc.2.take k], acc.2.drop k)) ([], frags)).1
      if shape.length ≠ n ∨ shape.sum ≠ frags.length ∨ shape.any (· = 0) then "BAD-LINE" else
      if !(table = prefixOffsets 0 groups ∨ (n = 1 ∧ table = [])) then "BAD-LINE" else
      match res with
      | ["panic"] => "PROP-FAIL class=frame-data-panic"
      | "ok" :: r =>
        match takeCounted decFpd r with
        | some (fpd, []) =>
          let bad := (List.range n).any fun i => fpd[i]? != some (some (groups.getD i []).flatten)
          if bad then s!"PROP-FAIL class=frame-data impl={fpd.map showFpd}" else
          let mfpd := (List.range fpd.length).map fun i => framePixelData attr table frags i
          if mfpd ≠ fpd then s!"MODEL-DIFF fpd model={mfpd.map showFpd} impl={fpd.map showFpd}" else
          s!"ok fpd-n{cntClass n}-{if shape.all (· = 1) then "one-each" else "multi-fragment"}-attr{if attr.isSome then "set" else "absent"}-{if table.isEmpty then "notable" else "table"}-{if frags.any (·.isEmpty) then "emptyfrag" else "noempty"}"
        | _ => "BAD-LINE"
      | _ => "BAD-LINE"
    | _, _, _, _, _ => "BAD-LINE"
  | ["big", len, fs, a, b] =>
    match len.toNat?, fs.toNat?, a.toNat?, b.toNat? with
    | some len, some fs, some a, some b =>
      match res with
      | ["panic"] => "PROP-FAIL class=helper-panic big"
      | ["ok", table, cnt, mn, mx, total, samples] =>
        match parseCsv table, cnt.toNat?, mn.toNat?, mx.toNat?, total.toNat?,
              (samples.splitOn ",").mapM parseSample with
        | some table, some cnt, some mn, some mx, some total, some samples =>
          if mn % 2 = 1 ∨ mx % 2 = 1 then "PROP-FAIL class=odd-fragment big" else
          if total < len then s!"PROP-FAIL class=data-lost big len={len} fs={fs} fragments hold {total} bytes" else
          if samples.any (fun (p, v) => v ≠ (if p < len then pattern a b p else 0)) then
            s!"PROP-FAIL class=data-lost big len={len} fs={fs} sampled byte differs" else
          if table ≠ [0] then s!"PROP-FAIL class=bot-entry big table={shortList table}" else
          match fragLens len fs with
          | .panic => "MODEL-DIFF model=panic"
          | .ok (mc, sz) =>
            if mc ≠ cnt ∨ sz ≠ mn ∨ sz ≠ mx ∨ total ≠ mc * sz then
              s!"MODEL-DIFF big model count={mc} size={sz} impl count={cnt} min={mn} max={mx} total={total}"
            else s!"ok big-fs{lenClass fs}-len{lenClass len}-{if len % sz = 0 then "exact" else "padded"}-{if len = 16777217 ∨ len = 17000001 then "witness" else "random"}"
        | _, _, _, _, _, _ => "BAD-LINE"
      | _ => "BAD-LINE"
    | _, _, _, _ => "BAD-LINE"
  | ["tx", uid, rows, cols, spp, bits, frames, attr, data, src] =>
    match rows.toNat?, cols.toNat?, spp.toNat?, bits.toNat?, frames.toNat?, attr.toNat?, unhex data with
    | some rows, some cols, some spp, some bits, some frames, some attr, some data =>
      let im : Image := { rows, cols, spp, bits, nframes := if attr = 1 then some frames else none, data }
      let name := uidName uid
      match res with
      | ["panic"] => s!"PROP-FAIL class=transcode-panic {name}"
      | "ok" :: nf :: tl :: rest =>
        match parseOptNat nf, parseOptNat tl, parseSeqRes ("ok" :: rest) with
        | some nf, some tl, some r =>
          -- the property, on the implementation's object
          if r.frags.any (fun f => f.length % 2 = 1) then
            s!"PROP-FAIL class=odd-fragment-{name} lens={r.frags.map List.length}" else
          if r.table.length ≠ frames then
            s!"PROP-FAIL class=bot-len {name} entries={r.table.length} frames={frames}" else
          if r.frags.length ≠ frames then
            s!"PROP-FAIL class=fragment-count {name} fragments={r.frags.length} frames={frames}" else
          let groups := r.frags.map fun f => [f]
          if r.table ≠ prefixOffsets 0 groups then
            s!"PROP-FAIL class=bot-entry {name} table={shortList r.table} want={shortList (prefixOffsets 0 groups)}" else
          let sum := (r.frags.map List.length).sum
          if tl.isSome ∧ tl ≠ some sum then
            s!"PROP-FAIL class=total-length {name} attribute={tl.getD 0} fragments={sum}" else
          if (List.range frames).any (fun i => r.fpd[i]? != some r.frags[i]?) then
            s!"PROP-FAIL class=frame-data {name} impl={r.fpd.map showFpd}" else
          -- the model
          let enc : Nat → Option Bytes :=
            if name == "uncompressed" then uncompressedFrame im else fun f => r.frags[f]?
          let ops := if name == "uncompressed" then uncompressedOps im
            else if name == "deflated-frame" then lastFragmentOps (r.frags.getLast?.getD []).length else []
          match transcodeEncap enc im.nframes ops with
          | none => "MODEL-DIFF model=err impl=ok"
          | some m =>
            if m.table ≠ r.table ∨ m.fragments ≠ r.frags then
              s!"MODEL-DIFF {name} model table={shortList m.table} frags={m.fragments.map hexOf} impl table={shortList r.table} frags={r.frags.map hexOf}" else
            if some m.nframes ≠ nf then s!"MODEL-DIFF {name} NumberOfFrames model={m.nframes} impl={nf}" else
            if m.totalLength ≠ tl then s!"MODEL-DIFF {name} total length model={m.totalLength} impl={tl}" else
            let mfpd := (List.range r.fpd.length).map fun i => framePixelData (some m.nframes) m.table m.fragments i
            if mfpd ≠ r.fpd then s!"MODEL-DIFF {name} fpd model={mfpd.map showFpd} impl={r.fpd.map showFpd}" else
            s!"ok tx-{name}-b{bits}-s{spp}-f{cntClass frames}-{if im.frameSize % 2 = 1 then "oddframe" else "evenframe"}-{if data.length > im.frameSize * frames then "padded" else "exact"}-{src}-attr{attr}"
        | _, _, _ => "BAD-LINE"
      | _ =>
        -- an error: the model never fails on these images
        match transcodeEncap (uncompressedFrame im) im.nframes [] with
        | some _ => s!"MODEL-DIFF {name} model=ok impl={res}"
        | none => s!"ok trivial-tx-{name}-error"
    | _, _, _, _, _, _, _ => "BAD-LINE"
  | _ => "BAD-LINE"

def main : IO Unit := Driver.run handle
