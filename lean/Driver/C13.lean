import DicomModel.Model.Util
import DicomModel.Model.Ops
import Driver.Loop
open Dicom Dicom.Ops

def vrOfStr (s : String) : Option VR :=
  match s with
  | "AE" => some .AE | "AS" => some .AS | "AT" => some .AT | "CS" => some .CS | "DA" => some .DA
  | "DS" => some .DS | "DT" => some .DT | "FL" => some .FL | "FD" => some .FD | "IS" => some .IS
  | "LO" => some .LO | "LT" => some .LT | "OB" => some .OB | "OD" => some .OD | "OF" => some .OF
  | "OL" => some .OL | "OV" => some .OV | "OW" => some .OW | "PN" => some .PN | "SH" => some .SH
  | "SL" => some .SL | "SQ" => some .SQ | "SS" => some .SS | "ST" => some .ST | "SV" => some .SV
  | "TM" => some .TM | "UC" => some .UC | "UI" => some .UI | "UL" => some .UL | "UN" => some .UN
  | "UR" => some .UR | "US" => some .US | "UT" => some .UT | "UV" => some .UV
  | _ => none

abbrev P (α : Type) := List String → Option (α × List String)

def pCount : P Nat
  | k :: ts => k.toNat?.map (·, ts)
  | [] => none

def pListWith {α} (f : String → Option α) : P (List α) := fun ts =>
  match pCount ts with
  | some (k, ts) =>
    if (ts.take k).length = k then ((ts.take k).mapM f).map (·, ts.drop k) else none
  | none => none

def pF (s : String) : Option FVal :=
  if s.startsWith "h" then (s.drop 1).toString.toInt?.map .half
  else if s.startsWith "b" then (s.drop 1).toString.toNat?.map .bits
  else none

/-- a primitive value: `e | s hex | ss k hex… | u8 hex | i16 k … | … | at k … | dt k hex…` -/
def pPrim : P Prim
  | "e" :: ts => some (.empty, ts)
  | "s" :: h :: ts => (unhex h).map fun b => (.str b, ts)
  | "ss" :: ts => (pListWith unhex ts).map fun (l, r) => (.strs l, r)
  | "u8" :: h :: ts => (unhex h).map fun b => (.u8 b, ts)
  | "i16" :: ts => (pListWith String.toInt? ts).map fun (l, r) => (.i16 l, r)
  | "u16" :: ts => (pListWith String.toNat? ts).map fun (l, r) => (.u16 l, r)
  | "i32" :: ts => (pListWith String.toInt? ts).map fun (l, r) => (.i32 l, r)
  | "u32" :: ts => (pListWith String.toNat? ts).map fun (l, r) => (.u32 l, r)
  | "i64" :: ts => (pListWith String.toInt? ts).map fun (l, r) => (.i64 l, r)
  | "u64" :: ts => (pListWith String.toNat? ts).map fun (l, r) => (.u64 l, r)
  | "f32" :: ts => (pListWith pF ts).map fun (l, r) => (.f32 l, r)
  | "f64" :: ts => (pListWith pF ts).map fun (l, r) => (.f64 l, r)
  | "at" :: ts => (pListWith String.toNat? ts).map fun (l, r) => (.tags l, r)
  | "dt" :: ts => (pListWith unhex ts).map fun (l, r) => (.dates l, r)
  | _ => none

mutual
  /-- `{ elem* }` with fuel (number of tokens bounds the nesting) -/
  def pObj : Nat → P Obj
    | 0, _ => none
    | fuel + 1, "{" :: ts => pElems fuel ts
    | _, _ => none
  def pElems : Nat → P Obj
    | 0, _ => none
    | _, "}" :: ts => some (.nil, ts)
    | fuel + 1, tag :: vr :: ts =>
      match tag.toNat?, vrOfStr vr with
      | some t, some v =>
        match ts with
        | "sq" :: k :: ts' =>
          match k.toNat? with
          | some k =>
            match pItems fuel k ts' with
            | some (items, r) =>
              match pElems fuel r with
              | some (rest, r') => some (.cons t v (.seq items) rest, r')
              | none => none
            | none => none
          | none => none
        | "px" :: ts' =>
          match pListWith String.toNat? ts', none with
          | some (bot, r), (_ : Option Unit) =>
            match pListWith unhex r with
            | some (frags, r') =>
              match pElems fuel r' with
              | some (rest, r'') => some (.cons t v (.pix bot frags) rest, r'')
              | none => none
            | none => none
          | none, _ => none
        | _ =>
          match pPrim ts with
          | some (p, r) =>
            match pElems fuel r with
            | some (rest, r') => some (.cons t v (.prim p) rest, r')
            | none => none
          | none => none
      | _, _ => none
    | _, _ => none
  def pItems : Nat → Nat → P Items
    | 0, _, _ => none
    | _, 0, ts => some (.nil, ts)
    | fuel + 1, k + 1, ts =>
      match pObj fuel ts with
      | some (o, r) =>
        match pItems fuel k r with
        | some (items, r') => some (.cons o items, r')
        | none => none
      | none => none
end

def pNum : P Num
  | kind :: n :: ts =>
    match kind, n.toInt? with
    | "i32", some n => some (.i32 n, ts)
    | "u32", some n => some (.u32 n.toNat, ts)
    | "i16", some n => some (.i16 n, ts)
    | "u16", some n => some (.u16 n.toNat, ts)
    | "f32", some n => some (.f32 n, ts)
    | "f64", some n => some (.f64 n, ts)
    | _, _ => none
  | _ => none

def pAction : P Action
  | "remove" :: ts => some (.remove, ts)
  | "empty" :: ts => some (.empty, ts)
  | "setvr" :: v :: ts => (vrOfStr v).map fun v => (.setVr v, ts)
  | "set" :: ts => (pPrim ts).map fun (p, r) => (.set p, r)
  | "sim" :: ts => (pPrim ts).map fun (p, r) => (.setIfMissing p, r)
  | "rep" :: ts => (pPrim ts).map fun (p, r) => (.replace p, r)
  | "setstr" :: h :: ts => (unhex h).map fun b => (.setStr b, ts)
  | "ssim" :: h :: ts => (unhex h).map fun b => (.setStrIfMissing b, ts)
  | "repstr" :: h :: ts => (unhex h).map fun b => (.replaceStr b, ts)
  | "pushstr" :: h :: ts => (unhex h).map fun b => (.pushStr b, ts)
  | "pushnum" :: ts => (pNum ts).map fun (n, r) => (.pushNum n, r)
  | "trunc" :: n :: ts => n.toNat?.map fun n => (.truncate n, ts)
  | _ => none

def pSteps : Nat → P (List (Nat × Nat))
  | 0, ts => some ([], ts)
  | n + 1, t :: i :: ts =>
    match t.toNat?, i.toNat?, pSteps n ts with
    | some t, some i, some (l, r) => some ((t, i) :: l, r)
    | _, _, _ => none
  | _, _ => none

def pDict : Nat → P (List (Nat × Option VR))
  | 0, ts => some ([], ts)
  | n + 1, t :: v :: ts =>
    match t.toNat?, pDict n ts with
    | some t, some (l, r) => some ((t, vrOfStr v) :: l, r)
    | _, _ => none
  | _, _ => none

mutual
  def Dicom.Ops.Obj.suits : Obj → Bool
    | .nil => true
    | .cons _ vr v r => Val.suits vr v && Obj.suits r
  def Dicom.Ops.Val.suits (vr : VR) : Val → Bool
    | .prim p => primSuits vr p
    | .seq items => Items.suits items
    | .pix _ _ => true
  def Dicom.Ops.Items.suits : Items → Bool
    | .nil => true
    | .cons o r => Obj.suits o && Items.suits r
end

mutual
  def Dicom.Ops.Obj.firstBad : Obj → Option (Nat × VR)
    | .nil => none
    | .cons t vr v r => match Val.firstBad t vr v with
      | some x => some x
      | none => Obj.firstBad r
  def Dicom.Ops.Val.firstBad (t : Nat) (vr : VR) : Val → Option (Nat × VR)
    | .prim p => if primSuits vr p then none else some (t, vr)
    | .seq items => Items.firstBad items
    | .pix _ _ => none
  def Dicom.Ops.Items.firstBad : Items → Option (Nat × VR)
    | .nil => none
    | .cons o r => match Obj.firstBad o with
      | some x => some x
      | none => Items.firstBad r
end

def actName : Action → String
  | .remove => "remove" | .empty => "empty" | .setVr _ => "setvr" | .set _ => "set" | .setStr _ => "setstr"
  | .setIfMissing _ => "sim" | .setStrIfMissing _ => "ssim" | .replace _ => "rep" | .replaceStr _ => "repstr"
  | .pushStr _ => "pushstr" | .pushNum _ => "pushnum" | .truncate _ => "trunc"

/-- run the history on the model next to the implementation's dumps -/
def runOps (mode : String) (dict : Nat → Option VR) (fuel : Nat) : Nat → Nat → Obj → List String → Nat → Nat → Nat →
    Except String (Obj × List String × Nat × Nat × Nat)
  | 0, _, o, ts, a, b, c => .ok (o, ts, a, b, c)
  | n + 1, idx, o, ts, maxDepth, nErr, kinds =>
    match ts with
    | "SEL" :: k :: ts =>
      match k.toNat? with
      | none => .error "BAD-LINE"
      | some k =>
      match pSteps k ts with
      | some (steps, tag :: "ACT" :: ts) =>
        match tag.toNat?, pAction ts with
        | some tag, some (act, "RES" :: res :: "OBJ" :: ts) =>
          match pObj fuel ts with
          | none => .error "BAD-LINE"
          | some (impl, ts) =>
            -- a data set sequence / pixel sequence under another VR cannot be written (writer panics)
            if !impl.wf then
              .error s!"PROP-FAIL class=sequence-under-non-sq-vr step={idx} action={actName act} depth={steps.length}"
            else
            -- the reference semantics (the property) on the implementation's previous state
            let spec := applySpec dict o steps tag act
            if spec.2.isNone ≠ (res == "ok") then
              .error s!"PROP-FAIL class=op-result-differs-from-documented-semantics step={idx} action={actName act} spec-ok={spec.2.isNone} impl={res}"
            else if !(Obj.beq spec.1 impl) then
              .error s!"PROP-FAIL class=object-differs-from-documented-semantics step={idx} action={actName act} depth={steps.length} result={res}"
            else
            -- the code model
            let m := apply dict o steps tag act
            if m.2.isNone ≠ (res == "ok") then .error s!"MODEL-DIFF result step={idx} action={actName act}"
            else if !(Obj.beq m.1 impl) then .error s!"MODEL-DIFF object step={idx} action={actName act}"
            else
              let bit := match act with
                | .remove => 1 | .empty => 2 | .setVr _ => 4 | .set _ => 8 | .setStr _ => 16
                | .setIfMissing _ => 32 | .setStrIfMissing _ => 64 | .replace _ => 128 | .replaceStr _ => 256
                | .pushStr _ => 512 | .pushNum _ => 1024 | .truncate _ => 2048
              runOps mode dict fuel n (idx + 1) impl ts (max maxDepth steps.length)
                (if res == "ok" then nErr else nErr + 1) (kinds ||| bit)
        | _, _ => .error "BAD-LINE"
      | _ => .error "BAD-LINE"
    | _ => .error "BAD-LINE"

def popCount : Nat → Nat → Nat
  | 0, _ => 0
  | f + 1, n => if n = 0 then 0 else n % 2 + popCount f (n / 2)

def handle (line : String) : String :=
  let toks := tokens line
  let fuel := toks.length + 2
  match toks with
  | "ops" :: "MODE" :: mode :: "DICT" :: n :: ts =>
    match n.toNat? with
    | none => "BAD-LINE"
    | some n =>
    match pDict n ts with
    | some (dl, "INIT" :: ts) =>
      let dict : Nat → Option VR := fun t => (dl.lookup t).join
      match pObj fuel ts with
      | some (o0, "N" :: k :: ts) =>
        match k.toNat? with
        | none => "BAD-LINE"
        | some k =>
        if !o0.wf then "MODEL-DIFF initial dump not sorted" else
        match runOps mode dict fuel k 0 o0 ts 0 0 0 with
        | .error e => e
        | .ok (final, rest, maxDepth, nErr, kinds) =>
          match rest with
          | ["WR", "ile", a, "ele", b, "ebe", c, "defl", d] =>
            let bad := [("ile", a), ("ele", b), ("ebe", c), ("defl", d)].filter (·.2 ≠ "ok")
            match bad with
            | (ts, st) :: _ =>
              if !final.suits then
                s!"PROP-FAIL class=value-type-incompatible-with-vr {st} ts={ts} all={bad.map (·.1)} mode={mode} first={(final.firstBad.map fun (t, v) => (t, repr v))}"
              else s!"PROP-FAIL class=reachable-object-write-read-{st} ts={ts} all={bad.map (·.1)} mode={mode}"
            | [] =>
              if k = 0 then "ok trivial-noops" else
              s!"ok {mode}-len{if k = 1 then "1" else if k ≤ 8 then "short" else "long"}-depth{maxDepth}-{if nErr = 0 then "allok" else "witherr"}-kinds{popCount 16 kinds}"
          | _ => "BAD-LINE"
      | _ => "BAD-LINE"
    | _ => "BAD-LINE"
  | _ => "BAD-LINE"

def main : IO Unit := Driver.run handle
