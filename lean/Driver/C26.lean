import DicomModel.Model.Util
import DicomModel.Model.PData
import Driver.Loop
open Dicom Dicom.PData Dicom.Gen.Ul

/-- comma-joined list token; `.` is the empty list -/
def parseList {α : Type} (f : String → Option α) (tok : String) : Option (List α) :=
  if tok == "." then some [] else (tok.splitOn ",").mapM f

def parseEv (t : String) : Option Ev :=
  if t == "p" then some .pending
  else if t == "e" then some .err
  else if t.startsWith "r" then (t.drop 1).toString.toNat?.map .ready
  else none

/-- a segment of the source: `p` (one Pending answer) or bytes -/
def parseSeg (t : String) : Option (Option Bytes) :=
  if t == "p" then some none else (unhex t).map some

def resOf : Res → String
  | .ok => "ok"
  | .writeZero => "err:writezero"
  | .brokenPipe => "err:brokenpipe"
  | .io => "err:io"
  | .panic => "panic"

def statusOf : Status → String
  | .eof => "eof"
  | .more => "more"
  | .err => "err"

def maxClass (max : Nat) : String :=
  if max ≤ 6 then "below-header" else if max > maximumPduSize then "above-maximum"
  else if max < 64 then "tiny" else if max < minimumPduSize then "small"
  else if max < minimumPduSize + 64 then "minimum" else "large"

def cnt (n : Nat) : String := if n ≤ 3 then toString n else "4+"

/-- the writer clauses of the property, evaluated on emitted bytes -/
def writerOracle (max ctx : Nat) (chunks : List Bytes) (status : String) (emitted : Bytes) :
    Option String :=
  let payload := chunks.flatten
  let good := status == "ok" &&
    (match parseFrags emitted with
     | some fs => specOk max ctx payload fs
     | none => false)
  if good then none
  else if status == "err:writezero" && stalls (max - 6) 0 chunks then
    some "write-zero-after-full-buffer"
  else some "writer-spec"

def writerSig (max : Nat) (chunks : List Bytes) (emitted : Bytes) : String :=
  let n := match parseFrags emitted with
    | some fs => cnt fs.length
    | none => "x"
  let total := chunks.flatten.length
  let shape := if total = 0 then "empty" else if max > 6 ∧ total % (max - 6) = 0 then "full" else "part"
  s!"{maxClass max}-pdus{n}-{shape}-chunks{cnt chunks.length}{if stalls (max - 6) 0 chunks then "-stall" else ""}"

def handleSw (max ctx : Nat) (chunks : List Bytes) (tscript : String) (status : String)
    (emitted : Bytes) : String :=
  let inScope := 6 < max ∧ max ≤ maximumPduSize
  match (if inScope then writerOracle max ctx chunks status emitted else none) with
  | some cls => s!"PROP-FAIL class={cls} status={status} emitted={hexOf emitted}"
  | none =>
    let (mo, mr) := runSync max ctx chunks
    if resOf mr ≠ status then s!"MODEL-DIFF sync status model={resOf mr} impl={status}"
    else if mo ≠ emitted then s!"MODEL-DIFF sync bytes model={hexOf mo} impl={hexOf emitted}"
    else s!"ok sw-{writerSig max chunks emitted}{if tscript == "." then "" else "-partial"}-{status}"

def scriptClass (script : List Ev) : String :=
  let p := script.any (· == .pending)
  let r := script.any (fun e => match e with | .ready _ => true | _ => false)
  let f := script.any (fun e => e == .err || e == .ready 0)
  (if script.isEmpty then "none" else "") ++ (if r then "r" else "") ++ (if p then "p" else "")
    ++ (if f then "f" else "")

def handleAw (max ctx : Nat) (chunks : List Bytes) (script : List Ev) (status : String)
    (emitted : Bytes) (used : Nat) (sstatus : String) (semitted : Bytes) : String :=
  let inScope := 6 < max ∧ max ≤ maximumPduSize ∧ script.all (fun e => e != .err && e != .ready 0)
  if inScope ∧ (status ≠ sstatus ∨ emitted ≠ semitted) then
    s!"PROP-FAIL class=async-differs-from-sync async={status}/{hexOf emitted} sync={sstatus}/{hexOf semitted}"
  else
  match (if inScope then writerOracle max ctx chunks status emitted else none) with
  | some cls => s!"PROP-FAIL class={cls} status={status} emitted={hexOf emitted}"
  | none =>
    let (mo, mr, rest) := runAsync max ctx chunks script
    let (so, sr) := runSync max ctx chunks
    if resOf mr ≠ status then s!"MODEL-DIFF async status model={resOf mr} impl={status}"
    else if mo ≠ emitted then s!"MODEL-DIFF async bytes model={hexOf mo} impl={hexOf emitted}"
    else if script.length - rest.length ≠ used then
      s!"MODEL-DIFF async transport calls model={script.length - rest.length} impl={used}"
    else if resOf sr ≠ sstatus ∨ so ≠ semitted then
      s!"MODEL-DIFF sync model={resOf sr}/{hexOf so} impl={sstatus}/{hexOf semitted}"
    else s!"ok aw-{writerSig max chunks emitted}-{scriptClass script}-used{cnt used}-{status}"

/-- the model's receives: a fresh reader per receive over the same shared buffer and source -/
def modelReceives (max : Nat) (k : Nat) (n : Nat) : Nat → Bytes → List Bytes →
    List (String × Bytes) → List (String × Bytes) × Bytes × List Bytes
  | 0, rb, src, acc => (acc.reverse, rb, src)
  | r + 1, rb, src, acc =>
    match readLoop max ⟨[], false, rb, src⟩ (List.replicate n k) [] with
    | (rs, data, st) => modelReceives max k n r rs.rb rs.src ((statusOf st, data) :: acc)

/-- the reader clause of the property on the implementation's answers: as long as the stream
continues with a complete message, the receive returns exactly its payload -/
def readerOracle : List (String × Bytes) → Bytes → Option (Option Bytes)
  | [], stream => some (some stream)
  | (st, data) :: more, stream =>
    match splitMessage stream with
    | none => some none          -- not a message the property talks about: nothing more to demand
    | some (fs, rest) =>
      if st == "eof" && data == fs.flatMap (·.data) then readerOracle more rest else none

def pairs : List String → Option (List (String × Bytes))
  | [] => some []
  | st :: d :: more =>
    match unhex d, pairs more with
    | some b, some ps => some ((st, b) :: ps)
    | _, _ => none
  | _ => none

def handleRd (kind : String) (max : Nat) (rb0 : Bytes) (segs : List (Option Bytes)) (receives : Nat)
    (kspec : String) (results : List (String × Bytes)) (rbLeft : Bytes) (used : Nat) : String :=
  let src := segs.filterMap id
  let stream := rb0 ++ src.flatten
  let inScope := minimumPduSize ≤ max ∧ max ≤ maximumPduSize ∧ src.all (fun s => !s.isEmpty)
  let verdict : Option String :=
    if ¬ inScope then none
    else match readerOracle results stream with
      | none => some "payload"
      | some none => none
      | some (some rest) =>
        if rbLeft ++ (src.drop used).flatten == rest then none else some "leftover"
  match verdict with
  | some what => s!"PROP-FAIL class=reader-spec what={what} results={results.map fun (s, d) => s ++ "/" ++ hexOf d} left={hexOf rbLeft} used={used}"
  | none =>
    let k := if kspec == "e" then 1073741824 else (kspec.drop 1).toString.toNat?.getD 1
    let (mres, mrb, msrc) := modelReceives max k (stream.length + 2) receives rb0 src []
    if mres ≠ results then
      s!"MODEL-DIFF read model={mres.map fun (s, d) => s ++ "/" ++ hexOf d} impl={results.map fun (s, d) => s ++ "/" ++ hexOf d}"
    else if results.all (fun (s, _) => s == "eof") ∧ (mrb ≠ rbLeft ∨ src.length - msrc.length ≠ used) then
      s!"MODEL-DIFF read state model={hexOf mrb}/{src.length - msrc.length} impl={hexOf rbLeft}/{used}"
    else
      let msg := match splitMessage stream with
        | some (fs, rest) => s!"frags{cnt fs.length}-{if rest.isEmpty then "norest" else "rest"}"
        | none => "nomsg"
      let sts := String.intercalate "+" (results.map (·.1))
      let mc := if max < minimumPduSize ∨ max > maximumPduSize then "badmax" else "max"
      s!"ok {kind}-{mc}-{msg}-segs{cnt src.length}{if segs.any (·.isNone) then "p" else ""}-{if rb0.isEmpty then "fresh" else "buffered"}-{if kspec == "e" then "toend" else if k == 1 then "k1" else "k"}-{sts}"

def handle (line : String) : String :=
  match tokens line with
  | ["sw", max, ctx, chunks, tscript, status, emitted] =>
    match max.toNat?, ctx.toNat?, parseList unhex chunks, unhex emitted with
    | some max, some ctx, some chunks, some emitted => handleSw max ctx chunks tscript status emitted
    | _, _, _, _ => "BAD-LINE"
  | ["aw", max, ctx, chunks, script, status, emitted, used, sstatus, semitted] =>
    match max.toNat?, ctx.toNat?, parseList unhex chunks, parseList parseEv script, unhex emitted,
      used.toNat?, unhex semitted with
    | some max, some ctx, some chunks, some script, some emitted, some used, some semitted =>
      handleAw max ctx chunks script status emitted used sstatus semitted
    | _, _, _, _, _, _, _ => "BAD-LINE"
  | kind :: max :: rb0 :: segs :: receives :: kspec :: rest =>
    if kind ≠ "rd" ∧ kind ≠ "rda" then "BAD-LINE" else
    match max.toNat?, unhex rb0, parseList parseSeg segs, receives.toNat? with
    | some max, some rb0, some segs, some receives =>
      if rest.length ≠ 2 * receives + 2 then "BAD-LINE" else
      match pairs (rest.take (2 * receives)), (rest.drop (2 * receives)) with
      | some results, [left, used] =>
        match unhex left, used.toNat? with
        | some left, some used => handleRd kind max rb0 segs receives kspec results left used
        | _, _ => "BAD-LINE"
      | _, _ => "BAD-LINE"
    | _, _, _, _ => "BAD-LINE"
  | _ => "BAD-LINE"

def main : IO Unit := Driver.run handle
