import DicomModel.Model.Util
import DicomModel.Model.Bytes
import DicomModel.Model.ImageTools
import Driver.Loop
open Dicom Dicom.ImageTools

/-! Driver of C35 (line format: `harness/src/bin/c35.rs`). -/

def colorOf (s : String) : Option Color :=
  if s == "l8" then some .l8 else if s == "l16" then some .l16
  else if s == "rgb8" then some .rgb8 else if s == "rgb16" then some .rgb16 else none

def wordsBe : Bytes → List Nat
  | a :: b :: r => (256 * a + b) :: wordsBe r
  | _ => []

def samplesOfTok (c : Color) (tok : String) : Option (List Nat) :=
  (unhex tok).map fun b => if c.bits = 8 then b else wordsBe b

def optNat (s : String) : Option (Option Nat) :=
  if s == "none" then some none else s.toNat?.map some

def strTok (s : String) : String :=
  if s == "none" then "none" else match unhexStr s with
    | some cs => String.ofList cs
    | none => "?"

def dimClass (n : Nat) : String :=
  if n = 1 then "1" else if n = 64 then "64" else if n % 2 = 1 then "odd" else "even"

/-- the observed attribute tokens of the intermediate file, as the model's structure -/
def parseAttrs : List String → Option (PixelModule × String × List String)
  | pi :: lut :: spp :: planar :: cols :: rows :: ba :: bs :: hb :: pr :: nof :: vr :: px :: ts :: rest =>
    match spp.toNat?, optNat planar, cols.toNat?, rows.toNat?, ba.toNat?, bs.toNat?, hb.toNat?,
          pr.toNat?, optNat nof, unhex px with
    | some spp, some planar, some cols, some rows, some ba, some bs, some hb, some pr, some nof, some px =>
      some ({ photometric := strTok pi, lutShape := strTok lut, spp := spp, planar := planar,
              cols := cols, rows := rows, bitsAllocated := ba, bitsStored := bs, highBit := hb,
              pixelRepr := pr, numberOfFrames := nof, pixelVr := vr, pixelData := px }, strTok ts, rest)
    | _, _, _, _, _, _, _, _, _, _ => none
  | _ => none

def showMod (m : PixelModule) : String :=
  s!"[{m.photometric},{m.lutShape},spp={m.spp},planar={m.planar},cols={m.cols},rows={m.rows},ba={m.bitsAllocated},bs={m.bitsStored},hb={m.highBit},pr={m.pixelRepr},frames={m.numberOfFrames},vr={m.pixelVr}]"

/-- pixel data as stored: padded to even length -/
def padEven (b : Bytes) : Bytes := if b.length % 2 = 1 then b ++ [0] else b

def handle (line : String) : String :=
  match tokens line with
  | cname :: w :: h :: stok :: "B" :: bk :: "F" :: fx :: "A" :: rest =>
    match colorOf cname, w.toNat?, h.toNat? with
    | some c, some w, some h =>
      match samplesOfTok c stok with
      | none => "BAD-LINE"
      | some samples =>
        let img : Img := ⟨c, w, h, samples⟩
        if rest.head? == some "unreadable" then
          s!"PROP-FAIL class=import-failed exit={fx} the imported file cannot be read"
        else
        match parseAttrs rest with
        | none => "BAD-LINE"
        | some (obs, ts, rest2) =>
          match rest2 with
          | "U" :: ux :: ubytes :: rest3 =>
            let unw : Option Bytes := if ubytes == "none" then none else unhex ubytes
            -- ---------------- the property on the implementation's output ----------------
            let grayFail : Option String :=
              if c.spp = 1 then
                match unw with
                | none => some s!"class=export-failed unwrap exit={ux}"
                | some b =>
                  if obs.cols ≠ w ∨ obs.rows ≠ h then some s!"class=dims {obs.cols}x{obs.rows} for {w}x{h}"
                  else if samplesOf c.bits b ≠ samples then some "class=pixels unwrapped frame differs from the image samples"
                  else none
              else none
            let rgbObs : Option (Option Img) :=
              match rest3 with
              | ["P", _, oc, ow, oh, os] =>
                if oc == "none" then some none else
                match colorOf oc, ow.toNat?, oh.toNat? with
                | some oc, some ow, some oh => (samplesOfTok oc os).map fun s => some ⟨oc, ow, oh, s⟩
                | _, _, _ => none
              | [] => some none
              | _ => none
            match rgbObs with
            | none => "BAD-LINE"
            | some rgbO =>
            let rgbFail : Option String :=
              if c.spp = 3 then
                match rgbO with
                | none => some "class=export-failed no decodable image written"
                | some o =>
                  if o.width ≠ w ∨ o.height ≠ h then some s!"class=dims {o.width}x{o.height} for {w}x{h}"
                  else if o.color ≠ c then some "class=pixels colour type / bit depth changed"
                  else if o.samples ≠ samples then some "class=pixels decoded samples differ"
                  else match unw with
                    | some b => if samplesOf c.bits b ≠ samples then some "class=pixels unwrapped frame differs from the image samples" else none
                    | none => some s!"class=export-failed unwrap exit={ux}"
              else none
            match grayFail, rgbFail with
            | some m, _ => "PROP-FAIL " ++ m
            | _, some m => "PROP-FAIL " ++ m
            | none, none =>
            -- ---------------- the model ----------------
            let m := inject img
            let mObs := { obs with pixelData := [] }
            let mMod := { m with pixelData := [] }
            if mObs ≠ mMod then s!"MODEL-DIFF attributes model={showMod mMod} impl={showMod mObs}"
            else if obs.pixelData ≠ padEven m.pixelData then "MODEL-DIFF pixel data bytes"
            else if ts ≠ "1.2.840.10008.1.2.1" then s!"MODEL-DIFF transfer syntax {ts}"
            else if unwrapFrame m ≠ unw then "MODEL-DIFF unwrapped frame"
            else if c.spp = 3 ∧ exportRgb m ≠ rgbO then "MODEL-DIFF decoded image"
            else if roundTrip img ≠ some img then "MODEL-DIFF model round trip"
            else s!"ok {cname}-w{dimClass w}-h{dimClass h}-{if (intoBytes img).length % 2 = 1 then "padded" else "even"}-{bk}"
          | _ => "BAD-LINE"
    | _, _, _ => "BAD-LINE"
  | _ => "BAD-LINE"

def main : IO Unit := Driver.run handle
