import DicomModel.Model.Util
import DicomModel.Model.DsReaderWords
import DicomModel.Model.LazyWords
import Driver.Loop
open Dicom Dicom.Rd

def splitBar (l : List String) : List (List String) :=
  l.foldr (fun w acc => if w == "|" then [] :: acc else
    match acc with
    | a :: r => (w :: a) :: r
    | [] => [[w]]) [[]]

def syntaxOf (s : String) : Option Syntax :=
  if s == "0" then some .implicitLE else if s == "1" then some .explicitLE
  else if s == "2" then some .explicitBE else none

def oddOf (s : String) : Option Odd :=
  if s == "a" then some .accept else if s == "n" then some .nextEven else if s == "f" then some .fail else none

/-- `word@pos/consumed` -/
structure Obs where
  word : String
  pos : Nat
  consumed : Nat

def parseObs (w : String) : Option Obs :=
  match w.splitOn "@" with
  | [a, b] =>
    match b.splitOn "/" with
    | [p, c] => match p.toNat?, c.toNat? with
      | some p, some c => some ⟨a, p, c⟩
      | _, _ => none
    | _ => none
  | _ => none

def parseAll (l : List String) : Option (List Obs) := l.mapM parseObs

def isEnd (w : String) : Bool := w == "D" || w.startsWith "E:" || w == "panic"

/-- the structural part of a token stream: headers with their lengths, delimiters, the kind of item
values, the final error / end -/
def skeleton (lazy : Bool) (ws : List String) : List String :=
  ws.filterMap fun w =>
    if w.startsWith "V:" then none
    else if w.startsWith "F:" then some "F"
    else if w.startsWith "O:" then some (if lazy then "F" else "O")
    else if lazy && w.startsWith "E:" then some "E"
    else some w

def normExpect (lazy : Bool) (ws : List String) : List String :=
  if lazy then ws.map fun w => if w == "O" then "F" else if w.startsWith "E:" then "E" else w else ws

/-- `H:tag:VR:len` ↦ len -/
def headerLen (w : String) : Option Nat :=
  match w.splitOn ":" with
  | ["H", _, _, l] => l.toNat?
  | _ => none

/-- the property on one observed run: position = base + consumed after every token; value tokens
advance the position by the (sanitised) length of their header -/
def oracle (pfx : String) (base total : Nat) (obs : List Obs) : Option String :=
  let rec go (prev : Option Obs) : List Obs → Option String
    | [] => none
    | o :: rest =>
      if isEnd o.word then none
      else if o.pos ≠ base + o.consumed then
        let cls := if (o.word.startsWith "F:" || o.word.startsWith "O:" || o.word == "V:skip") && o.consumed == total
          then "item-value-truncated-position" else pfx ++ "position-not-consumed"
        some s!"PROP-FAIL class={cls} reader={if pfx.isEmpty then "eager" else "lazy"} token={(o.word.take 40).toString} position={o.pos} base={base} consumed={o.consumed}"
      else
        let bad := match prev with
          | some p => match headerLen p.word with
            | some l => o.word.startsWith "V:" && o.pos ≠ p.pos + l
            | none => false
          | none => false
        if bad then some s!"PROP-FAIL class={pfx}value-consumption token={(o.word.take 40).toString} position={o.pos}"
        else go (some o) rest
  go none obs

def handleRd (ts odd mode base flags bytes expect : String) (rest : List String) : String :=
  match syntaxOf ts, oddOf odd, modeOf mode, base.toNat?, unhex bytes, splitBar rest with
  | some sx, some od, some vm, some b, some bs, [[], eager, lazy] =>
    match parseAll eager, parseAll lazy with
    | some eo, some lo =>
      let total := bs.length
      -- 1. the property on the implementation's outputs (eager reader, then lazy reader)
      match oracle "" b total eo with
      | some f => f
      | none =>
      match oracle "lazy-" b total lo with
      | some f => f
      | none =>
      let exp := if expect == "-" then none else some (expect.splitOn ",")
      let eWords := eo.map (·.word)
      let lWords := lo.map (·.word)
      let misE : Bool := match exp with
        | some e => skeleton false eWords != e
        | none => false
      if misE then
        s!"PROP-FAIL class=misaligned-{odd} {firstDiff 0 (exp.getD []) (skeleton false eWords)}"
      else
      let misL : Bool := match exp with
        | some e => skeleton true lWords != normExpect true e
        | none => false
      if misL then
        s!"PROP-FAIL class=lazy-misaligned-{odd} {firstDiff 0 (normExpect true (exp.getD [])) (skeleton true lWords)}"
      else
      -- 2. the model against the eager reader
      let cfg : Cfg := { odd := od, mode := vm, isXs := stdIsXs, parseOk := stdParseOk }
      let recs := readAll cfg (plainDec sx (relaxedDict stdDictV)) () b cap bs
      let mWords := recs.map fun r => r.out.word
      if !wordsEq mWords eWords then s!"MODEL-DIFF tokens {firstDiff 0 mWords eWords}"
      else
        let posDiff := (recs.zip eo).find? fun (r, o) =>
          !isEnd o.word && (r.pos ≠ o.pos || r.consumed ≠ o.consumed)
        match posDiff with
        | some (r, o) => s!"MODEL-DIFF position token={(o.word.take 40).toString} model={r.pos}/{r.consumed} impl={o.pos}/{o.consumed}"
        | none =>
          -- 3. the lazy reader model (C06's, default options: accepting strategy; values fetched with the
          -- preserved strategy or skipped; no Pixel Representation override in that model)
          let lazyApplies := odd == "a" && mode == "1" &&
            !(lWords.any fun w => (w.splitOn "H:00280103").length > 1)
          let lazyDiff : Option String :=
            if lazyApplies then
              let (mw, mend) := Dicom.LP.lazyWords sx (relaxedDict stdDictV) b bs
              let mAll := mw.map (·.1) ++ mend.toList
              if !wordsEq mAll lWords then some s!"MODEL-DIFF lazy tokens {firstDiff 0 mAll lWords}"
              else match (mw.zip lo).find? fun (m, o) => !isEnd o.word && (m.2.1 ≠ o.pos || m.2.2 ≠ o.consumed) with
                | some (m, o) => some s!"MODEL-DIFF lazy position token={(o.word.take 40).toString} model={m.2.1}/{m.2.2} impl={o.pos}/{o.consumed}"
                | none => none
            else none
          match lazyDiff with
          | some d => d
          | none =>
          let oddSeen := eWords.any fun w => match headerLen w with | some l => l % 2 == 1 | none => false
          let ending := match eWords.getLast? with
            | some "D" => "end" | some w => (if w.startsWith "E:" then (w.drop 2).toString else "cap") | none => "none"
          let shape := (if eWords.any (·.startsWith "S:") then "sq" else "") ++ (if eWords.any (· == "P") then "px" else "")
          let triv := if bs.isEmpty then "trivial-" else ""
          s!"ok {triv}ts{ts}-{odd}-m{mode}-{flags}-{if exp.isSome then "exp" else "noexp"}-{if oddSeen then "odd" else "even"}-{ending}-{if shape.isEmpty then "flat" else shape}-{if b == 0 then "b0" else "bN"}{if lazyApplies then "-lz" else ""}"
    | _, _ => "BAD-LINE"
  | _, _, _, _, _, _ => "BAD-LINE"

def handle (line : String) : String :=
  match tokens line with
  | "rd" :: ts :: odd :: mode :: base :: flags :: bytes :: expect :: rest => handleRd ts odd mode base flags bytes expect rest
  | _ => "BAD-LINE"

def main : IO Unit := Driver.run handle
