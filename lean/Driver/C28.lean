import DicomModel.Model.Util
import DicomModel.Model.Assoc
import DicomModel.Model.AssocLine
import Driver.Loop
open Dicom Dicom.Assoc Dicom.Assoc.Line

/-- the run's constants, from the `reg` header line -/
structure Env where
  impl : Impl
  reg : List Str

def parseReg (ts : Toks) : Option Env := do
  let (ic, r) ← str ts
  let (iv, r) ← str r
  let (reg, _) ← counted str r
  some ⟨⟨ic, iv⟩, reg⟩

/-- the last Maximum Length item of the request, as the statement reads it -/
def specPeerMax (uvs : List UserVar) : Nat :=
  match (uvs.filterMap fun | .maxLength n => some n | _ => none).getLast? with
  | none => DEFAULT_MAX_PDU
  | some 0 => MAXIMUM_PDU_SIZE
  | some n => min n MAXIMUM_PDU_SIZE

def lastIdentity (uvs : List UserVar) : Option UserIdentity :=
  (uvs.filterMap fun | .identity u => some u | _ => none).getLast?

/-- the property, evaluated on what the implementation answered (`reply`) and kept (`srv`).
Returns `some (class, detail)` on a violation. -/
def oracle (env : Env) (cl : CfgLine) (rq : Request) (reply : Seen) (srv : Toks) : Option (String × String) :=
  let cfg := cl.cfg
  let isRj (s r : Nat) : Bool := match reply with
    | .rj _ s' r' => s == s' && r == r'
    | _ => false
  if rq.protocolVersion ≠ cfg.protocolVersion then
    if isRj 2 2 then none else some ("protocol-version-reason", "want rj source=2 reason=2")
  else if rq.appContext ≠ cfg.appContext then
    if isRj 1 2 then none else some ("app-context-reason", "want rj source=1 reason=2")
  else match cl.pol.access cfg.aeTitle rq.calling rq.called (lastIdentity rq.userVars) with
  | some reason =>
    let c := (RjSource.serviceUser reason).codes
    if isRj c.1 c.2 then none else some ("access-control-reason", s!"want rj source={c.1} reason={c.2}")
  | none =>
    match reply with
    | .pdu (.assocAC ac) =>
      if ac.contexts.map (·.id) ≠ rq.contexts.map (·.id) then
        some ("result-per-context", s!"ids {ac.contexts.map (·.id)} vs proposed {rq.contexts.map (·.id)}")
      else
        let bad := (rq.contexts.zip ac.contexts).filterMap fun (pc, res) =>
          let aOk := decide (AbstractOk cfg pc.abstractSyntax)
          let firstEl := pc.transferSyntaxes.find? fun ts => decide (Eligible cfg env.reg ts)
          let shouldAccept := aOk && firstEl.isSome
          if (res.reason == .acceptance) != shouldAccept then
            some ("accept-iff", s!"id={pc.id} reason={res.reason.code} should-accept={shouldAccept}")
          else if shouldAccept then
            if some res.transferSyntax ≠ firstEl then
              some ("chosen-first", s!"id={pc.id} chose={hexOfStr res.transferSyntax} first-eligible={hexOfStr (firstEl.getD [])}")
            else none
          else if !aOk && res.reason != .abstractSyntaxNotSupported then
            some ("reason-names-failure", s!"id={pc.id} reason={res.reason.code} want=3")
          else if aOk && res.reason != .transferSyntaxesNotSupported then
            some ("reason-names-failure", s!"id={pc.id} reason={res.reason.code} want=4")
          else none
        match bad with
        | b :: _ => some b
        | [] =>
          -- the acceptor's own state: requestor's maximum PDU length and its list of contexts
          match srv with
          | "ok" :: pm :: rest =>
            if pm.toNat? ≠ some (specPeerMax rq.userVars) then
              some ("max-pdu-from-request", s!"kept={pm} want={specPeerMax rq.userVars}")
            else
              match (do let (_, r) ← word rest; let (_, r) ← str r; let (_, r) ← str r; counted negotiated r) with
              | some (negs, _) =>
                if negs.map (fun n => (n.id, n.reason, n.transferSyntax)) ≠
                    ac.contexts.map (fun c => (c.id, c.reason, c.transferSyntax)) then
                  some ("result-per-context", "acceptor's own context list differs from the A-ASSOCIATE-AC it sent")
                else none
              | none => some ("result-per-context", "acceptor state unreadable")
          | _ => some ("accept-iff", s!"request was answered with AC but the acceptor reports {srv}")
    | _ => some ("accept-iff", "request passes version, application context and access control but was not answered with A-ASSOCIATE-AC")

def maxClass (uvs : List UserVar) : String :=
  match (uvs.filterMap fun | .maxLength n => some n | _ => none) with
  | [] => "absent"
  | l => match l.getLast? with
    | some 0 => if l.length > 1 then "zero-last" else "zero"
    | some n => if n > MAXIMUM_PDU_SIZE then "over" else if l.length > 1 then "multi" else "n"
    | none => "absent"

/-- the first PDU as a model PDU (the contents of a stray A-ASSOCIATE-RJ are irrelevant) -/
def asPdu : Seen → Option Pdu
  | .pdu p => some p
  | .rj _ _ _ => some (.assocRJ true (.serviceUser .noReasonGiven))
  | .other _ => none

def handleCase (env : Env) (ts : Toks) : String :=
  match sections ts with
  | [head, firstT, replyT, srvT] =>
    match head with
    | mode :: rqlenT :: cfgT =>
      match rqlenT.toNat?, cfgLine cfgT, (seen firstT).bind asPdu, seen replyT with
      | some rqlen, some (cl, []), some first, some reply =>
        let cfg := cl.cfg
        -- `establish` refuses to start, or its reader refuses the PDU, before request processing
        let pre : Option String :=
          if mode == "tcp" && cfg.abstractSyntaxes.isEmpty && !cfg.promiscuous then some "missing-abstract-syntax"
          else if mode == "tcp" && cfg.maxPdu < MINIMUM_PDU_SIZE then some "invalid-max-pdu"
          else if mode == "tcp" && cl.strict && rqlen > cfg.maxPdu then some "pdu-too-large"
          else none
        match pre with
        | some why =>
          -- nothing may be accepted
          if srvT.head? == some "ok" then s!"PROP-FAIL class=accept-iff established although {why}"
          else if why == "missing-abstract-syntax" && srvT ≠ ["err:missing-abstract-syntax"] then
            s!"MODEL-DIFF pre={why} impl={srvT}"
          else s!"ok pre-{why}"
        | none =>
          let viol := match first with
            | .assocRQ rq => oracle env cl rq reply srvT
            | _ => if srvT.head? == some "ok" then some ("accept-iff", "established without a request") else none
          match viol with
          | some (c, d) => s!"PROP-FAIL class={c} {d} reply={" ".intercalate (replyT.take 12)}"
          | none =>
            let out := processRq .repaired cfg env.reg cl.pol env.impl first
            let mReply := showPdu out.reply
            let mSrv := match out.result with
              | .ok v =>
                -- the in-process hook returns the negotiated options without the acceptor's own maximum
                if mode == "hook" then (showView v).set 2 "-" else showView v
              | .error e => [showErr e]
            if mReply ≠ replyT then
              s!"MODEL-DIFF reply model={" ".intercalate mReply} impl={" ".intercalate replyT}"
            else if mSrv ≠ srvT then
              s!"MODEL-DIFF state model={" ".intercalate mSrv} impl={" ".intercalate srvT}"
            else
              let cfgSig := s!"{if cfg.promiscuous then "P" else "p"}{if cfg.transferSyntaxes.isEmpty then "t" else "T"}{cl.acTok.take 3}{cl.neg}"
              match first, out.reply with
              | .assocRQ rq, .assocAC ac =>
                let n := rq.contexts.length
                let nb := if n ≤ 4 then toString n else if n ≤ 12 then "5+" else if n ≤ 100 then "13+" else "100+"
                let codes := (ac.contexts.map (·.reason.code)).eraseDups.mergeSort
                let padded := rq.contexts.any fun pc =>
                  pc.abstractSyntax.getLast? == some '\x00' || pc.transferSyntaxes.any (·.getLast? == some '\x00')
                let sig := s!"{mode}-ac-n{nb}-r{String.join (codes.map toString)}-{cfgSig}-ml{maxClass rq.userVars}{if padded then "-nul" else ""}"
                if n == 0 then s!"ok trivial-{sig}" else s!"ok {sig}"
              | .assocRQ _, .assocRJ _ src => s!"ok {mode}-rj-{src.codes.1}-{src.codes.2}-{cl.acTok.take 3}"
              | _, r => s!"ok {mode}-first-{(showPdu first).head!}-{(showPdu r).head!}"
      | _, _, _, _ => "BAD-LINE"
    | _ => "BAD-LINE"
  | _ => "BAD-LINE"

partial def loop (h out : IO.FS.Stream) (env : Option Env) : IO Unit := do
  let line ← h.getLine
  if line.isEmpty then return ()
  let l := line.trimAscii.toString
  if l.isEmpty then loop h out env else
  let (id, body) := Driver.splitId l
  match tokens body with
  | "reg" :: r =>
    match parseReg r with
    | some e => out.putStrLn s!"{id} ok trivial-registry-{e.reg.length}"; loop h out (some e)
    | none => out.putStrLn s!"{id} BAD-LINE"; loop h out env
  | ["skip", _] => out.putStrLn s!"{id} ok trivial-skip"; loop h out env
  | "case" :: r =>
    match env with
    | some e => out.putStrLn s!"{id} {handleCase e r}"; loop h out env
    | none => out.putStrLn s!"{id} BAD-LINE no-registry"; loop h out env
  | _ => out.putStrLn s!"{id} BAD-LINE"; loop h out env

def main : IO Unit := do
  let i ← IO.getStdin
  let o ← IO.getStdout
  loop i o none
  o.flush
