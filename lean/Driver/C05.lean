import DicomModel.Model.Util
import DicomModel.Model.Bytes
import DicomModel.Model.TagText
import DicomModel.Model.Rle
import DicomModel.Model.Pdu
import DicomModel.Model.Partial
import DicomModel.Model.Guard
import DicomModel.Model.GuardText
import DicomModel.Model.TagTextStd
import DicomModel.Model.Header
import Driver.Loop
open Dicom

/-! C05 driver: the oracle (no panic / abort / hang, whatever the model says) on every stage of the
implementation's outcome, then the ok/err/panic prediction of the imported models where one exists. -/

def readerKinds : List String := ["file", "ds", "tok", "tokflex", "lazy", "coll", "meta"]

def tsFamily (uid : String) : String :=
  if uid == "1.2.840.10008.1.2.5" then "rle"
  else if uid.startsWith "1.2.840.10008.1.2.4.5" ∨ uid.startsWith "1.2.840.10008.1.2.4.7" then "jpeg"
  else if uid == "1.2.840.10008.1.2.1.98" then "encaps"
  else if uid == "1.2.840.10008.1.2.8.1" then "deflated-frame"
  else "other"

/-- the classifier of one bad stage outcome, `none` if the stage outcome is acceptable -/
def stageClass (kind arg : String) (tok : String) : Option String :=
  match tok.splitOn ":" with
  | stage :: "panic" :: site =>
    -- the panic site (crate.file + message shape) is the classifier: a different panic is a different class
    let _ := stage
    some s!"panic-{"-".intercalate site}"
  | stage :: "abort" :: how :: _ =>
    let grp :=
      if stage == "px" ∨ stage == "frame" ∨ stage == "frame1" ∨ stage == "framelast" ∨ stage == "all" then
        s!"pixel-decoder-{if kind == "px" ∨ kind == "codec" then tsFamily ((arg.splitOn ",").headD "") else "file"}"
      else if stage == "dump" then "dump"
      else if readerKinds.contains kind then (if kind == "meta" ∨ stage == "meta" then "file-meta" else "dataset-reader")
      else kind
    some s!"abort-{how}-{grp}"
  | [stage, "hang"] => some s!"hang-{kind}-{stage}"
  | _ => none

def outcomeClass (tok : String) : String :=
  match tok.splitOn ":" with
  | _ :: r :: _ => if r.startsWith "ok" then "ok" else r
  | _ => "?"

def stageOf (toks : List String) (name : String) : Option String :=
  (toks.find? fun t => (t.splitOn ":").headD "" == name).map outcomeClass

/-- fragments as (u32 LE length, bytes)* -/
def parseFrags : Nat → Bytes → List Bytes
  | 0, _ => []
  | fuel+1, bs =>
    match rdLe32 bs with
    | none => []
    | some (n, rest) =>
      let n := min n rest.length
      rest.take n :: parseFrags fuel (rest.drop n)

/-- `ToLocalTimeZone` with the worker's `TZ=UTC`: the missing offset is 0 -/
def mkLocalUtc (s e : Partial.Precise) : Option Partial.DateTimeRange :=
  match s, e with
  | .naive d1 t1, .aware d2 t2 o2 =>
    if Partial.gtAware d1 t1 0 d2 t2 o2 then none else some ⟨true, some (.aware d1 t1 0), some e⟩
  | .aware d1 t1 o1, .naive d2 t2 =>
    if Partial.gtAware d1 t1 o1 d2 t2 0 then none else some ⟨true, some s, some (.aware d2 t2 0)⟩
  | _, _ => Partial.mkDateTimeRange .failOn s e

def tsSyntax (uid : String) : Option Syntax :=
  if uid == "1.2.840.10008.1.2" then some .implicitLE
  else if uid == "1.2.840.10008.1.2.1" then some .explicitLE
  else if uid == "1.2.840.10008.1.2.2" then some .explicitBE
  else none

def rleClass : Rle.Outcome Bytes → String
  | .ok _ => "ok" | .err => "err" | .panic => "panic"

/-- the model's prediction for the stages of one case: list of (stage, class) -/
def predict (kind arg : String) (data : Bytes) : List (String × String) :=
  if kind == "text" ∧ arg == "tag" then
    [("read", match TagText.parseTag data with | .ok _ => "ok" | .err _ => "err" | .panic => "panic")]
  -- the date / time parsers: C12's model and the panic-explicit one of Model/GuardText.lean
  else if kind == "text" ∧ arg == "datep" then
    [("read", if (Partial.parseDatePartial data).isSome then "ok" else "err"),
     ("read", (Guard.parseDatePartialG data).cls)]
  else if kind == "text" ∧ arg == "timep" then
    [("read", if (Partial.parseTimePartial data).isSome then "ok" else "err"),
     ("read", (Guard.parseTimePartialG data).cls)]
  else if kind == "text" ∧ arg == "dtp" then
    [("read", if (Partial.parseDateTimePartial data).isSome then "ok" else "err"),
     ("read", (Guard.parseDateTimePartialG data).cls)]
  else if kind == "text" ∧ arg == "date" then [("read", (Guard.parseDateG data).cls)]
  else if kind == "text" ∧ arg == "time" then [("read", (Guard.parseTimeG data).cls)]
  else if kind == "text" ∧ arg == "dater" then
    [("read", if (Partial.parseDateRange data).isSome then "ok" else "err"),
     ("read", (Guard.parseDateRangeG data).cls)]
  else if kind == "text" ∧ arg == "timer" then
    [("read", if (Partial.parseTimeRange data).isSome then "ok" else "err"),
     ("read", (Guard.parseTimeRangeG data).cls)]
  else if kind == "text" ∧ arg == "dtr" then [("read", (Guard.parseDateTimeRangeG mkLocalUtc data).cls)]
  else if kind == "text" ∧ arg == "sel" then
    [("read", match TagText.stdParseSelector data with | .ok _ => "ok" | .err _ => "err" | .panic => "panic"),
     ("read", if (TagText.splitOn 0x2E data).any (fun p => Guard.selectorSlicesG p == .panic) then "panic" else "any")]
  else if kind == "text" ∧ arg == "ptag" then
    [("read", match TagText.stdParseTag data with | .tag _ => "ok" | .unknown => "err" | .panic => "panic")]
  else if kind == "hdr" then
    match tsSyntax arg with
    | none => []
    | some ts =>
      [("read", if (decodeHeader ts (fun _ => none) data).isSome then "ok" else "err"),
       ("item", match decodeItemHeader (match ts with | .explicitBE => true | _ => false) data with | .ok _ => "ok" | .error _ => "err")]
  else if kind == "pdu" then
    let strict := arg.startsWith "s"
    match (arg.drop 1).toString.toNat? with
    | none => []
    | some mx =>
      [("read", match Pdu.readPdu mx strict data with
        | .ok _ => "ok" | .inc => "inc" | .err .panic => "panic" | .err .fuel => "fuel" | .err _ => "err")]
  else if kind == "codec" then
    match arg.splitOn "," with
    | [ts, rows, cols, spp, bits, frames] =>
      match rows.toNat?, cols.toNat?, spp.toNat?, bits.toNat?, frames.toNat? with
      | some rows, some cols, some spp, some bits, some frames =>
        let P : Rle.Params := ⟨rows, cols, spp, bits⟩
        let frags := parseFrags (data.length + 1) data
        if ts == "1.2.840.10008.1.2.5" ∧ P.frameSize * (frags.length + 1) ≤ 200000 then
          -- the decoder as repaired by af5f450 (`Model/Guard.lean`)
          [("all", rleClass (Guard.decodeAllFixed P frags [])),
           ("frame", rleClass (Guard.decodeFrameFixed P frags 0 [])),
           ("framelast", rleClass (Guard.decodeFrameFixed P frags (frames - 1) [7, 7, 7]))]
        else []
      | _, _, _, _, _ => []
    | _ => []
  else []

def sizeClass (n : Nat) : String := if n ≤ 64 then "s" else if n ≤ 1024 then "m" else "l"

def handle (line : String) : String :=
  match tokens line with
  | [kind, arg, muts, hexd, outcome] =>
    let toks := outcome.splitOn ","
    -- 1. the property on the implementation's outcome
    match toks.findSome? (stageClass kind arg) with
    | some cls =>
      -- say whether the model (where there is one) predicted it
      let note := match unhex hexd with
        | some data => if (predict kind arg data).any (·.2 == "panic") then " (model predicts a panic)" else ""
        | none => ""
      s!"PROP-FAIL class={cls} {kind} {arg} {muts} -> {outcome}{note}"
    | none =>
      if toks.any fun t => outcomeClass t == "?" then s!"BAD-LINE outcome {outcome}" else
      -- 2. model prediction of ok / err / inc per stage
      let diffs := match (if hexd.startsWith "big:" then none else unhex hexd) with
        | none => []
        | some data => (predict kind arg data).filterMap fun (st, cls) =>
            match stageOf toks st with
            | some c => if c == cls ∨ cls == "any" then none else some s!"{st}: impl={c} model={cls}"
            | none => none
      if diffs ≠ [] then s!"MODEL-DIFF {kind} {arg} {"; ".intercalate diffs}" else
      let sz := if hexd.startsWith "big:" then "xl" else sizeClass (hexd.length / 2)
      let argc := if kind == "px" ∨ kind == "codec" then tsFamily ((arg.splitOn ",").headD "")
                  else if kind == "pdu" then (arg.take 1).toString else arg
      let shape := ",".intercalate (toks.map fun t => s!"{(t.splitOn ":").headD ""}={outcomeClass t}")
      let trivial := muts == "valid" ∧ false
      s!"ok {if trivial then "trivial-" else ""}{kind}-{argc}-{if muts == "valid" then "valid" else "mutated"}-{sz}-{shape}"
  | _ => "BAD-LINE"

def main : IO Unit := Driver.run handle
