import DicomModel.Model.Util
import DicomModel.Model.StoreScu
import Driver.Loop
open Dicom Dicom.StoreScu

/-! Driver of C33: `hook` lines (in-process `check_presentation_contexts`) and `bin` lines
(the real `dicom-storescu` binary against the recording acceptor). -/

abbrev Toks := List String

def takeN? : Nat → Toks → Option (Toks × Toks)
  | 0, ts => some ([], ts)
  | _+1, [] => none
  | n+1, t :: ts => (takeN? n ts).map fun (a, b) => (t :: a, b)

def bit? (s : String) : Option Bool :=
  if s == "1" then some true else if s == "0" then some false else none

/-- `R k (raw known codecfree decodeall canon)*` -/
def parseReg : Toks → Option (List (Uid × Option TsEntry) × Toks)
  | "R" :: k :: rest => do
    let n ← k.toNat?
    let rec go : Nat → Toks → List (Uid × Option TsEntry) → Option (List (Uid × Option TsEntry) × Toks)
      | 0, ts, acc => some (acc.reverse, ts)
      | n+1, raw :: known :: cf :: cda :: canon :: ts, acc => do
        let r ← unhexStr raw
        let kn ← bit? known
        let c ← bit? cf
        let d ← bit? cda
        let u ← unhexStr canon
        go n ts ((r, if kn then some ⟨u, c, d⟩ else none) :: acc)
      | _, _, _ => none
    go n rest []
  | _ => none

/-- `P n (id asx ts)*` -/
def parsePcs : Toks → Option (List Pc × Toks)
  | "P" :: k :: rest => do
    let n ← k.toNat?
    let rec go : Nat → Toks → List Pc → Option (List Pc × Toks)
      | 0, ts, acc => some (acc.reverse, ts)
      | n+1, id :: a :: t :: ts, acc => do
        let i ← id.toNat?
        let a ← unhexStr a
        let t ← unhexStr t
        go n ts (⟨i, a, t⟩ :: acc)
      | _, _, _ => none
    go n rest []
  | _ => none

def regOf (tbl : List (Uid × Option TsEntry)) : Reg := fun u =>
  match tbl.lookup u with
  | some (some e) => some e
  | _ => none

/-- the real registry must be of the shape the theorems assume (`Reg.Lawful`) -/
def regLawful (tbl : List (Uid × Option TsEntry)) : Bool :=
  tbl.all fun (raw, e) => match e with
    | some e => e.uid == trimUid raw
    | none => true

def showErr : SelErr → String
  | .unsupportedFileTs => "err:unsupfts"
  | .noPresentationContext => "err:nopc"
  | .noNegotiatedTs => "err:nonegts"

/-- the property's oracle on one selected context; `none` = fine -/
def ctxOracle (ign : Bool) (sop : Uid) (pcs : List Pc) (pc : Pc) : Option String :=
  if !pcs.contains pc then some "chosen-not-accepted"
  else if !ign && pc.asx != sop then
    some (if trimUid pc.ts == ivrle then "fallback-other-sop-class" else "context-other-sop-class")
  else none

def branchSig (reg : Reg) (f : FileInfo) (never : Bool) (r : Except SelErr (Pc × Uid)) : String :=
  match r, reg f.ts with
  | .error .unsupportedFileTs, _ => "err-unsupfts"
  | .error .noNegotiatedTs, _ => "err-nonegts"
  | .error .noPresentationContext, some fts =>
    if never then "err-nopc-never" else if !fts.canDecodeAll then "err-nopc-undecodable"
    else "err-nopc-nofallback"
  | .error .noPresentationContext, none => "err-nopc"
  | .ok (_, ts), some fts =>
    if ts == fts.uid then "exact"
    else if fts.codecFree then "reencode"
    else if ts == evrle then "transcode-evrle" else "transcode-ivrle"
  | .ok _, none => "ok?"

def handleHook (t : Toks) : String :=
  match t with
  | ign :: never :: fsop :: fts :: rest =>
    match bit? ign, bit? never, unhexStr fsop, unhexStr fts, parseReg rest with
    | some ign, some never, some fsop, some fts, some (tbl, rest) =>
      match parsePcs rest with
      | some (pcs, res) =>
        let reg := regOf tbl
        let f : FileInfo := ⟨fsop, fts, []⟩
        -- the property, on the implementation's answer (always first)
        let fail : Option String :=
          match res with
          | ["ok", id, a, ts, tsel] =>
            match id.toNat?, unhexStr a, unhexStr ts, unhexStr tsel with
            | some id, some a, some ts, some tsel =>
              match ctxOracle ign fsop pcs ⟨id, a, ts⟩ with
              | some c => some c
              | none => if tsel != trimUid ts then some "ts-not-context-ts" else none
            | _, _, _, _ => some "unreadable-answer"
          | _ => none
        match fail with
        | some c => s!"PROP-FAIL class={c} impl={res}"
        | none =>
          if !regLawful tbl then "MODEL-DIFF registry-law" else
          let m := check true reg f pcs ign never
          let ms : Toks := match m with
            | .ok (pc, ts) => ["ok", toString pc.id, hexOfStr pc.asx, hexOfStr pc.ts, hexOfStr ts]
            | .error e => [showErr e]
          if ms != res then s!"MODEL-DIFF select model={ms} impl={res}" else
          let distract := pcs.any fun pc => pc.asx != fsop
          let padded := (fts :: pcs.map (·.ts)).any fun u => u != trimUid u
          let n := pcs.length
          let sz := if n == 0 then "0" else if n ≤ 2 then "s" else if n ≤ 8 then "m" else "l"
          let sig := s!"hook-{branchSig reg f never m}-i{if ign then 1 else 0}n{if never then 1 else 0}-{sz}{if distract then "-x" else ""}{if padded then "-pad" else ""}"
          if n == 0 then s!"ok trivial-{sig}" else s!"ok {sig}"
      | none => "BAD-LINE"
    | _, _, _, _, _ => "BAD-LINE"
  | _ => "BAD-LINE"

structure Store where
  pcid : Nat
  same : Bool
  cmdSop : Uid
  inst : Uid
  dsv : String

structure Assoc where
  pcs : List Pc
  stores : List Store
  fin : String

def parseFiles : Toks → Option (List FileInfo × Toks)
  | "F" :: k :: rest => do
    let n ← k.toNat?
    let rec go : Nat → Toks → List FileInfo → Option (List FileInfo × Toks)
      | 0, ts, acc => some (acc.reverse, ts)
      | n+1, s :: t :: i :: ts, acc => do
        let s ← unhexStr s
        let t ← unhexStr t
        let i ← unhexStr i
        go n ts (⟨s, t, i⟩ :: acc)
      | _, _, _ => none
    go n rest []
  | _ => none

def parseProps : Toks → Option (Option (List (Uid × Uid)) × Toks)
  | "Q" :: "x" :: rest => some (none, rest)
  | "Q" :: k :: rest => do
    let n ← k.toNat?
    let rec go : Nat → Toks → List (Uid × Uid) → Option (List (Uid × Uid) × Toks)
      | 0, ts, acc => some (acc.reverse, ts)
      | n+1, a :: t :: ts, acc => do
        let a ← unhexStr a
        let t ← unhexStr t
        go n ts ((a, t) :: acc)
      | _, _, _ => none
    (go n rest []).map fun (l, r) => (some l, r)
  | _ => none

def parseStores : Toks → Option (List Store × Toks)
  | "S" :: k :: rest => do
    let n ← k.toNat?
    let rec go : Nat → Toks → List Store → Option (List Store × Toks)
      | 0, ts, acc => some (acc.reverse, ts)
      | n+1, id :: same :: c :: i :: d :: ts, acc => do
        let id ← id.toNat?
        let same ← bit? same
        let c ← unhexStr c
        let i ← unhexStr i
        go n ts (⟨id, same, c, i, d⟩ :: acc)
      | _, _, _ => none
    go n rest []
  | _ => none

def parseAssocs : Nat → Toks → List Assoc → Option (List Assoc)
  | 0, [], acc => some acc.reverse
  | 0, _, _ => none
  | n+1, ts, acc => do
    let (pcs, r1) ← parsePcs ts
    let (st, r2) ← parseStores r1
    match r2 with
    | fin :: r3 => parseAssocs n r3 (⟨pcs, st, fin⟩ :: acc)
    | [] => none

/-- the property's oracle on one received C-STORE -/
def storeOracle (ign : Bool) (files : List FileInfo) (a : Assoc) (s : Store) : Option String :=
  match files.find? (·.inst == s.inst) with
  | none => some "unknown-instance"
  | some f =>
    match a.pcs.find? (·.id == s.pcid) with
    | none => some "store-on-unaccepted-context"
    | some pc =>
      match ctxOracle ign f.sop a.pcs pc with
      | some c => some c
      | none =>
        if !s.same then some "pdv-context-mixed"
        else if s.cmdSop != f.sop then some "command-sop-class-differs"
        else if s.dsv != "eq" then some s!"dataset-{s.dsv}"
        else none

def firstSome {α β : Type} (f : α → Option β) : List α → Option β
  | [] => none
  | x :: xs => match f x with
    | some y => some y
    | none => firstSome f xs

def sameSet (a b : List (Uid × Uid)) : Bool := a.all (b.contains ·) && b.all (a.contains ·)

def b01 (b : Bool) : String := if b then "1" else "0"

def handleBin (t : Toks) : String :=
  match t with
  | mode :: ign :: never :: ff :: exit :: rest =>
    match bit? ign, bit? never, bit? ff, parseFiles rest with
    | some ign, some never, some ff, some (files, r1) =>
      match parseReg r1 with
      | some (tbl, r2) =>
        match parseProps r2 with
        | some (props, "A" :: m :: r3) =>
          match m.toNat? with
          | none => "BAD-LINE"
          | some m =>
          match parseAssocs m r3 [] with
          | none => "BAD-LINE"
          | some assocs =>
            let reg := regOf tbl
            -- the property, on what the acceptor recorded (always first)
            let fail := firstSome (fun a => firstSome (storeOracle ign files a) a.stores) assocs
            let allInst := assocs.flatMap fun a => a.stores.map (·.inst)
            let fail := match fail with
              | some c => some c
              | none => if allInst.eraseDups.length != allInst.length then some "sent-twice" else none
            match fail with
            | some c => s!"PROP-FAIL class={c} mode={mode}"
            | none =>
              if !regLawful tbl then "MODEL-DIFF registry-law" else
              let propDiff := match props with
                | some q => !sameSet q (proposals never files)
                | none => false
              if propDiff then "MODEL-DIFF proposals" else
              -- what the model sends. Only what the property talks about is compared: which files
              -- go out and on which context (not the order of the stores: `session` fixes one, the
              -- statement none), and whether the run ends by release or (--fail-first) by abort.
              let established (a : Assoc) : Bool := !a.pcs.isEmpty && a.fin != "noassoc"
              let badStore := firstSome (fun a =>
                if !established a then (if a.stores.isEmpty then none else some "stores-without-association") else
                firstSome (fun s =>
                  match files.find? (·.inst == s.inst) with
                  | none => some "unknown"
                  | some f => match plan true reg a.pcs ign never f with
                    | .ok p => if p.pc.id == s.pcid then none else some s!"store model={p.pc.id} impl={s.pcid}"
                    | .error _ => some "store model=skip") a.stores) assocs
              let diff : Option String :=
                match badStore with
                | some b => some b
                | none =>
                  let nAssoc := if mode == "async2" then 2 else 1
                  if assocs.length != nAssoc then some s!"associations model={nAssoc} impl={assocs.length}" else
                  match assocs.find? established with
                  | none => none
                  | some a0 =>
                    let r := session true reg a0.pcs ign never ff files
                    let want := (session true reg a0.pcs ign never false files).1.map (·.file.inst)
                    if r.2 then
                      -- aborted at the first file without a context: a part of the sendable files
                      if !allInst.all (want.contains ·) then some "sent-set not within model"
                      else if assocs.any (fun a => established a && a.fin != "abort") then
                        some s!"end model=abort impl={assocs.map (·.fin)}"
                      else if exit == "x0" then some "exit model=failure impl=x0"
                      else none
                    else
                      if !(want.all (allInst.contains ·) && allInst.all (want.contains ·)) then
                        some s!"sent-set model={want.length} impl={allInst.length}"
                      else if assocs.any (fun a => established a && a.fin != "release") then
                        some s!"end model=release impl={assocs.map (·.fin)}"
                      else none
              match diff with
              | some d => s!"MODEL-DIFF {d}"
              | none =>
                let plans := match assocs.find? established with
                  | some a0 => files.map fun f => plan true reg a0.pcs ign never f
                  | none => []
                let nOk := (plans.filter fun p => p.toBool).length
                let nTr := (plans.filter fun p => match p with | .ok p => p.transcode | _ => false).length
                let nSkip := plans.length - nOk
                let cls (n : Nat) : String := if n == 0 then "0" else if n == 1 then "1" else "n"
                let sig := s!"bin-{mode}-i{b01 ign}n{b01 never}f{b01 ff}-sent{cls allInst.length}-tr{cls nTr}-skip{cls nSkip}-{if props.isSome then "raw" else "real"}"
                if allInst.isEmpty then s!"ok trivial-{sig}" else s!"ok {sig}"
        | _ => "BAD-LINE"
      | none => "BAD-LINE"
    | _, _, _, _ => "BAD-LINE"
  | _ => "BAD-LINE"

def handle (line : String) : String :=
  match tokens line with
  | "hook" :: t => handleHook t
  | "bin" :: t => handleBin t
  | _ => "BAD-LINE"

def main : IO Unit := Driver.run handle
