import DicomModel.Model.Util
import DicomModel.Model.AeAddr
import Driver.Loop
open Dicom Dicom.AeAddr

/-- address parser of the model: `str` addresses always parse (T = String);
`sock` addresses parse exactly when the text is the canonical printed form given on the line. -/
def parseAddr (kind : String) (canon : List Char) (s : List Char) : Option (List Char) :=
  if kind == "str" then some s else if s = canon then some s else none

def optTitle (tok : String) : Option (Option (List Char)) :=
  if tok == "none" then some none
  else if tok.startsWith "some:" then (unhexStr (tok.drop 5).toString).map some
  else none

def showTitle : Option (List Char) → String
  | none => "none"
  | some t => "some:" ++ hexOfStr t

def handle (line : String) : String :=
  match tokens line with
  | "ae" :: kind :: title :: addr :: printed :: res =>
    match optTitle title, unhexStr addr, unhexStr printed with
    | some t, some a, some p =>
      -- the property itself, evaluated on the implementation's answer (always first)
      let inScope : Bool := match t with
        | none => true
        | some tt => decide ('@' ∉ tt ∧ tt ≠ [])
      if inScope = true ∧ res ≠ ["ok", showTitle t, hexOfStr a] then
        s!"PROP-FAIL class=ae-roundtrip impl={res}"
      else
      let mp := Ae.print id ⟨t, a⟩
      if mp ≠ p then s!"MODEL-DIFF print model={hexOfStr mp} impl={printed}" else
      let mr := Ae.parse (parseAddr kind a) p
      let mrS := match mr with
        | some r => ["ok", showTitle r.title, hexOfStr r.addr]
        | none => ["err"]
      if mrS ≠ res then s!"MODEL-DIFF parse model={mrS} impl={res}" else
        let sig := match t with
          | none => if '@' ∈ a then "notitle-at-in-addr" else "notitle"
          | some tt => if tt = [] then "empty-title" else if '@' ∈ tt then "title-with-at"
              else if '@' ∈ a then "title-at-in-addr" else if '\\' ∈ tt then "title-backslash" else "title"
        s!"ok ae-{kind}-{sig}-{if ':' ∈ a then (if '[' ∈ a then "v6" else "port") else "bare"}"
    | _, _, _ => "BAD-LINE"
  | "full" :: kind :: title :: addr :: printed :: res =>
    match unhexStr title, unhexStr addr, unhexStr printed with
    | some t, some a, some p =>
      if '@' ∉ t ∧ t ≠ [] ∧ res ≠ ["ok", hexOfStr t, hexOfStr a] then
        s!"PROP-FAIL class=full-roundtrip impl={res}"
      else
      let mp := Full.print id ⟨t, a⟩
      if mp ≠ p then s!"MODEL-DIFF print model={hexOfStr mp} impl={printed}" else
      let mr := Full.parse (parseAddr kind a) p
      let mrS := match mr with
        | some r => ["ok", hexOfStr r.title, hexOfStr r.addr]
        | none => ["err"]
      if mrS ≠ res then s!"MODEL-DIFF parse model={mrS} impl={res}" else
        let sig := if t = [] then "empty-title" else if '@' ∈ t then "title-with-at"
              else if '@' ∈ a then "title-at-in-addr" else if '\\' ∈ t then "title-backslash" else "title"
        s!"ok full-{kind}-{sig}-{if ':' ∈ a then (if '[' ∈ a then "v6" else "port") else "bare"}"
    | _, _, _ => "BAD-LINE"
  | _ => "BAD-LINE"

def main : IO Unit := Driver.run handle
