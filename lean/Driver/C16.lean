import DicomModel.Model.Util
import DicomModel.Model.Registry
import DicomModel.Gen.Registry
import Driver.Loop
open Dicom Dicom.Registry

def toStr (tok : String) : Option Str := (unhexStr tok).map (·.map Char.toNat)

def hexStr (s : Str) : String := hexOfStr (s.map Char.ofNat)

def bit (tok : String) : Option Bool :=
  if tok == "1" then some true else if tok == "0" then some false else none

def parseCodec (tok : String) : Option Codec :=
  match tok with
  | "none" => some .none
  | "encap00" => some (.encap false false)
  | "encap10" => some (.encap true false)
  | "encap01" => some (.encap false true)
  | "encap11" => some (.encap true true)
  | "ds0" => some (.dataset false)
  | "ds1" => some (.dataset true)
  | _ => none

def parseCoder (tok : String) : Option (Option Coder) :=
  match tok with
  | "none" => some none
  | "ile" => some (some .ile)
  | "ele" => some (some .ele)
  | "ebe" => some (some .ebe)
  | "other" => some (some .other)
  | _ => none

def parseEndian (tok : String) : Option Bool :=
  if tok == "be" then some true else if tok == "le" then some false else none

def parseQueries (tok : String) : Option Queries :=
  match tok.toList.map (fun c => if c == '1' then some true else if c == '0' then some false else none) with
  | [some a, some b, some c, some d, some e, some f, some g] => some ⟨a, b, c, d, e, f, g⟩
  | _ => none

def tableOf (cfg : String) : Option (List Row) :=
  if cfg == "tools" then some Gen.tools else if cfg == "default" then some Gen.dflt else none

def parseRow (t : List String) : Option Row :=
  match t with
  | [uid, name, en, x, cd, q, dec, enc, pr, pw, bd] =>
    match toStr uid, toStr name, parseEndian en, bit x, parseCodec cd, parseQueries q,
          parseCoder dec, parseCoder enc, bit pr, bit pw, parseEndian bd with
    | some uid, some name, some big, some x, some cd, some q, some dec, some enc, some pr, some pw, some bd =>
      some ⟨⟨uid, name, big, x, cd⟩, q, dec, enc, pr, pw, bd⟩
    | _, _, _, _, _, _, _, _, _, _, _ => none
  | _ => none

def b01 (b : Bool) : String := if b then "1" else "0"

def showQ (q : Queries) : String :=
  b01 q.fullySupported ++ b01 q.codecFree ++ b01 q.unsupported ++ b01 q.encapsulated ++
  b01 q.unsupportedPixel ++ b01 q.decodeAll ++ b01 q.decodeDataset

def showCoder : Option Coder → String
  | none => "none" | some .ile => "ile" | some .ele => "ele" | some .ebe => "ebe" | some .other => "other"

def showCodec : Codec → String
  | .none => "none"
  | .encap r w => "encap" ++ b01 r ++ b01 w
  | .dataset d => "ds" ++ b01 d

def showRow (r : Row) : String :=
  s!"[{hexStr r.ts.uid} {hexStr r.ts.name} big={b01 r.ts.big} explicit={b01 r.ts.explicit} {showCodec r.ts.codec} q={showQ r.q} dec={showCoder r.dec} enc={showCoder r.enc} pr={b01 r.pixelReader} pw={b01 r.pixelWriter} basicBig={b01 r.basicBig}]"

def nodupStr : List Str → Bool
  | [] => true
  | a :: as => !(as.any (eqStr a)) && nodupStr as

def stripNulSpace (s : Str) : Str := (s.reverse.dropWhile fun c => c == 0 || c == 32).reverse

def handle (line : String) : String :=
  match tokens line with
  | "row" :: cfg :: rest =>
    match tableOf cfg, parseRow rest with
    | some table, some r =>
      -- the property's per-entry clauses on what the implementation answered (always first)
      if !r.agrees then
        s!"PROP-FAIL class=queries-agree uid={hexStr r.ts.uid} the capability queries / offered coders do not follow from the codec: impl={showRow r} expected-from-codec={showRow r.ts.row}"
      else if !r.onlyImplicitOk then
        s!"PROP-FAIL class=only-implicit-is-implicit uid={hexStr r.ts.uid} explicit={r.ts.explicit}"
      else if !r.onlyBigOk then
        s!"PROP-FAIL class=only-be-is-be uid={hexStr r.ts.uid} big={r.ts.big}"
      else if !r.decodableOk then
        s!"PROP-FAIL class=decodable-has-codecs uid={hexStr r.ts.uid} dec={showCoder r.dec} enc={showCoder r.enc}"
      else if !r.cleanOk then
        s!"PROP-FAIL class=uid-with-padding uid={hexStr r.ts.uid} can never be looked up"
      else
      match table.find? (fun g => eqStr g.ts.uid r.ts.uid) with
      | none => s!"MODEL-DIFF entry {hexStr r.ts.uid} is not in the generated table Gen.{cfg}"
      | some g =>
        if g ≠ r then s!"MODEL-DIFF entry {hexStr r.ts.uid} differs from Gen.{cfg}: gen={showRow g} impl={showRow r}"
        else s!"ok row-{cfg}-{rest.getD 4 "?"}-{rest.getD 6 "?"}"
    | _, _ => "BAD-LINE"
  | "uids" :: cfg :: n :: uids =>
    match tableOf cfg, n.toNat?, uids.mapM toStr with
    | some table, some n, some us =>
      if us.length ≠ n then "BAD-LINE"
      else if !nodupStr us then s!"PROP-FAIL class=uids-unique two registry entries share a uid ({cfg})"
      else if us ≠ uidsOf table then s!"MODEL-DIFF uid list differs from Gen.{cfg}: impl has {n}, generated table has {table.length}"
      else s!"ok uids-{cfg}-{n}"
    | _, _, _ => "BAD-LINE"
  | ["get", cfg, kind, reg, base, query, res] =>
    match tableOf cfg, bit reg, toStr base, toStr query with
    | some table, some reg, some base, some query =>
      let implRes : Option (Option (Str × Str)) :=
        if res == "none" then some none
        else match res.splitOn ":" with
          | ["some", u, n] => match toStr u, toStr n with
            | some u, some n => some (some (u, n))
            | _, _ => none
          | _ => none
      if res ≠ "panic" ∧ implRes.isNone then "BAD-LINE" else
      -- oracle: a registered uid followed by NULs/spaces must resolve to that transfer syntax
      let stripped := stripNulSpace query
      let padded := reg && eqStr stripped base
      let hitsBase := match implRes with
        | some (some (u, _)) => eqStr u base
        | _ => false
      if padded && !hitsBase then
        s!"PROP-FAIL class=get-padded registered uid {hexStr base} with trailing NUL/space padding (query {hexStr query}) resolved to {res}"
      else if res == "panic" then "MODEL-DIFF get panicked"
      else
      let m := table.map (·.ts)
      let mr := (get m query).map fun t => (t.uid, t.name)
      if some mr ≠ implRes then
        s!"MODEL-DIFF get {hexStr query}: model={(mr.map fun p => hexStr p.1)} impl={res}"
      else s!"ok get-{cfg}-{kind}-{if mr.isSome then "hit" else "miss"}"
    | _, _, _, _ => "BAD-LINE"
  | _ => "BAD-LINE"

def main : IO Unit := Driver.run handle
