import DicomModel.Model.Util
import DicomModel.Model.Bytes
import DicomModel.Model.Rle
import Driver.Loop
open Dicom Dicom.Rle

/-
C20 driver, two stages.
`enc`  : `rle bits spp rows cols nframes pad dst0 vals choices mut`
         → same line + `nfrags frag…` produced by the Lean reference encoder `rleEncode`.
`check`: `rle bits spp rows cols nframes pad dst0 vals choices mut nfrags frag… R whole f0 … f(n-1) foob`
         (fragments as really given to the decoder, i.e. after the harness applied `mut`)
         → verdict. Result tokens: `ok:<hex>` | `err` | `panic`.
-/

structure Case where
  bits : Nat
  spp : Nat
  rows : Nat
  cols : Nat
  nframes : Nat
  pad : Bool
  dst0 : Bytes
  vals : Bytes
  choices : Bytes
  mutd : String

/-- bytes per sample used by the *encoder* (for unsupported `bits` the encoder still emits a
1-byte-per-sample stream; the decoder must then refuse) -/
def Case.encBps (c : Case) : Nat := if c.bits = 16 then 2 else 1

def groupVals (bps : Nat) : Nat → Bytes → List Nat
  | 0, _ => []
  | fuel + 1, bs =>
    if bs.isEmpty then [] else
    (if bps = 2 then (bs.getD 0 0) * 256 + bs.getD 1 0 else bs.getD 0 0) :: groupVals bps fuel (bs.drop bps)

def Case.frames (c : Case) : List (List Nat) :=
  let vs := groupVals c.encBps c.vals.length c.vals
  let per := c.rows * c.cols * c.spp
  (List.range c.nframes).map fun f => (vs.drop (f * per)).take per

def Case.encode (c : Case) : List Bytes :=
  rleEncode c.spp c.encBps c.pad c.frames c.choices

def parseCase : List String → Option (Case × List String)
  | bits :: spp :: rows :: cols :: nf :: pad :: dst0 :: vals :: ch :: mu :: rest =>
    match bits.toNat?, spp.toNat?, rows.toNat?, cols.toNat?, nf.toNat?, pad.toNat?, unhex dst0, unhex vals, unhex ch with
    | some b, some s, some r, some c, some n, some p, some d, some v, some k =>
      some ({ bits := b, spp := s, rows := r, cols := c, nframes := n, pad := p = 1, dst0 := d, vals := v,
              choices := k, mutd := mu }, rest)
    | _, _, _, _, _, _, _, _, _ => none
  | _ => none

def handleEnc (line : String) : String :=
  match tokens line with
  | "rle" :: rest =>
    match parseCase rest with
    | some (c, []) =>
      let frags := c.encode
      line ++ " " ++ toString frags.length ++ String.join (frags.map fun f => " " ++ hexOf f)
    | _ => "BAD-LINE"
  | _ => "BAD-LINE"

inductive Res where
  | ok (b : Bytes)
  | fail (how : String)
deriving DecidableEq

def parseRes (t : String) : Option Res :=
  if t == "err" then some (.fail "err")
  else if t == "panic" then some (.fail "panic")
  else if t.startsWith "ok:" then (unhex (t.drop 3).toString).map .ok
  else none

def Res.show : Res → String
  | .ok b => "ok:" ++ hexOf b
  | .fail h => h

def ofOutcome : Outcome Bytes → Res
  | .ok b => .ok b
  | .err => .fail "err"
  | .panic => .fail "panic"

/-- `Err` and panic are one class: the property only speaks about successful decoding -/
def Res.same : Res → Res → Bool
  | .ok a, .ok b => a == b
  | .fail _, .fail _ => true
  | _, _ => false

def short (s : String) : String := if s.length > 160 then (s.take 160).toString ++ "…" else s

def takeFrags : Nat → List String → Option (List Bytes × List String)
  | 0, rest => some ([], rest)
  | n + 1, t :: rest =>
    match unhex t, takeFrags n rest with
    | some f, some (fs, r) => some (f :: fs, r)
    | _, _ => none
  | _ + 1, [] => none

def runFeatures (c : Case) : String :=
  let runs := (List.range c.nframes).flatMap fun f =>
    (frameRuns c.spp c.encBps (c.frames.getD f []) ((splitChoices c.nframes c.choices).getD f [])).flatten
  let has (p : Run → Bool) : Bool := runs.any p
  (if has (fun r => match r with | .lit _ => true | _ => false) then "L" else "") ++
  (if has (fun r => match r with | .rep _ _ => true | _ => false) then "R" else "") ++
  (if has (fun r => match r with | .noop => true | _ => false) then "N" else "") ++
  (if has (fun r => match r with | .lit b => b.length == 128 | .rep n _ => n == 128 | _ => false) then "M" else "") ++
  (if c.rows * c.cols > 128 then "X" else "")

def handleCheck (line : String) : String :=
  match tokens line with
  | "rle" :: rest =>
    match parseCase rest with
    | some (c, nfr :: rest2) =>
      match nfr.toNat? with
      | none => "BAD-LINE"
      | some nfr =>
      match takeFrags nfr rest2 with
      | some (frags, "R" :: wholeT :: resT) =>
        match parseRes wholeT, resT.mapM parseRes with
        | some whole, some frs =>
          if frs.length ≠ nfr + 1 then "BAD-LINE" else
          let P : Params := { rows := c.rows, cols := c.cols, spp := c.spp, bits := c.bits }
          let valid : Bool := c.mutd == "none" && (c.bits == 8 || c.bits == 16) && (c.spp == 1 || c.spp == 3)
          -- the fragments of an unmutated case must be what the reference encoder produces
          if c.mutd == "none" && frags ≠ c.encode then "MODEL-DIFF pipeline: fragments are not the reference encoding" else
          let perFrame := frs.take nfr
          -- 1. the property's oracle on the implementation's output
          let expFrames := c.frames.map (leInterleaved c.encBps)
          let badFrame := (List.range nfr).find? fun f => perFrame.getD f (.fail "") ≠ .ok (c.dst0 ++ expFrames.getD f [])
          if valid && whole ≠ .ok (c.dst0 ++ expFrames.flatten) then
            s!"PROP-FAIL class=rle-whole-b{c.bits}-s{c.spp} whole-object decoding differs from the little-endian interleaved samples: impl={short whole.show} want=ok:{short (hexOf (c.dst0 ++ expFrames.flatten))}"
          else if valid && badFrame.isSome then
            let f := badFrame.getD 0
            s!"PROP-FAIL class=rle-frame-b{c.bits}-s{c.spp} frame {f}: impl={short ((perFrame.getD f (.fail "")).show)} want=ok:{short (hexOf (c.dst0 ++ expFrames.getD f []))}"
          else
          -- whole = concatenation of the per-frame results (whenever everything decoded)
          let allOk := perFrame.all fun r => match r with | .ok _ => true | _ => false
          let cat := c.dst0 ++ (perFrame.flatMap fun r => match r with | .ok b => b.drop c.dst0.length | _ => [])
          if allOk && (c.bits == 8 || c.bits == 16) && (match whole with | .ok w => w ≠ cat | _ => true) then
            s!"PROP-FAIL class=rle-concat whole={short whole.show} concat-of-frames={short (hexOf cat)}"
          else
          -- 2. model against implementation
          let mWhole := ofOutcome (decodeAll P frags c.dst0)
          if !(mWhole.same whole) then s!"MODEL-DIFF whole model={short mWhole.show} impl={short whole.show}" else
          let mFr := (List.range (nfr + 1)).map fun f => ofOutcome (decodeFrame P frags f c.dst0)
          match (List.range (nfr + 1)).find? fun f => !((mFr.getD f (.fail "")).same (frs.getD f (.fail ""))) with
          | some f => s!"MODEL-DIFF frame {f} model={short ((mFr.getD f (.fail "")).show)} impl={short ((frs.getD f (.fail "")).show)}"
          | none =>
            let mk := (c.mutd.splitOn ":").headD "none"
            let triv := c.rows * c.cols * c.spp * nfr = 0
            let cls := match whole with | .ok _ => "ok" | .fail _ => "fail"
            s!"ok {if triv then "trivial-" else ""}rle-b{c.bits}-s{c.spp}-f{min nfr 3}-{runFeatures c}-p{if c.pad then 1 else 0}-{mk}-{cls}"
        | _, _ => "BAD-LINE"
      | _ => "BAD-LINE"
    | _ => "BAD-LINE"
  | _ => "BAD-LINE"

def main (args : List String) : IO Unit :=
  match args with
  | ["enc"] => Driver.run handleEnc
  | _ => Driver.run handleCheck
