import DicomModel.Model.Util
import DicomModel.Model.NumConv
import DicomModel.Model.NumConvSpec
import Driver.Loop
open Dicom Dicom.NumConv

/-! ## float element operations, executed with Lean's IEEE `Float` / `Float32` -/

/-- marker for "some float, bits not predicted" (text → float) -/
def UNKNOWN : Nat := 2 ^ 64

def intToFBits (w : FW) (n : Int) : Nat :=
  match w with
  | .w32 => if n ≥ 0 then (UInt64.ofNat n.toNat).toFloat32.toBits.toNat else (Int64.ofInt n).toFloat32.toBits.toNat
  | .w64 => if n ≥ 0 then (UInt64.ofNat n.toNat).toFloat.toBits.toNat else (Int64.ofInt n).toFloat.toBits.toNat

/-- `Float.toBits` canonicalises NaN, so NaN conversions are done on the bit pattern
(sign kept, payload kept from the top, quiet bit set — what the hardware conversion does). -/
def fToFBits (a b : FW) (x : Nat) : Nat :=
  match a, b with
  | .w32, .w64 =>
    if x / 2 ^ 23 % 256 = 255 ∧ x % 2 ^ 23 ≠ 0 then
      (x / 2 ^ 31) * 2 ^ 63 + 0x7FF * 2 ^ 52 + ((x % 2 ^ 23) * 2 ^ 29) % 2 ^ 51 + 2 ^ 51
    else (Float32.ofBits (UInt32.ofNat x)).toFloat.toBits.toNat
  | .w64, .w32 =>
    if x / 2 ^ 52 % 2048 = 2047 ∧ x % 2 ^ 52 ≠ 0 then
      (x / 2 ^ 63) * 2 ^ 31 + 0xFF * 2 ^ 23 + ((x % 2 ^ 52) / 2 ^ 29) % 2 ^ 22 + 2 ^ 22
    else (Float.ofBits (UInt64.ofNat x)).toFloat32.toBits.toNat
  | _, _ => x

def f64ToInt (T : IntTy) (f : Float) : Int :=
  match T with
  | .u8 => f.toUInt8.toNat | .u16 => f.toUInt16.toNat | .u32 => f.toUInt32.toNat | .u64 => f.toUInt64.toNat
  | .i8 => f.toInt8.toInt | .i16 => f.toInt16.toInt | .i32 => f.toInt32.toInt | .i64 => f.toInt64.toInt

def f32ToInt (T : IntTy) (f : Float32) : Int :=
  match T with
  | .u8 => f.toUInt8.toNat | .u16 => f.toUInt16.toNat | .u32 => f.toUInt32.toNat | .u64 => f.toUInt64.toNat
  | .i8 => f.toInt8.toInt | .i16 => f.toInt16.toInt | .i32 => f.toInt32.toInt | .i64 => f.toInt64.toInt

def fToIntBits (w : FW) (T : IntTy) (x : Nat) : Int :=
  match w with
  | .w32 => f32ToInt T (Float32.ofBits (UInt32.ofNat x))
  | .w64 => f64ToInt T (Float.ofBits (UInt64.ofNat x))

/-- `str::parse::<f32/f64>`: ok/err by the grammar; bits predicted only for small integers
(exactly representable), otherwise `UNKNOWN`. -/
def parseFBits (w : FW) (s : List Char) : Option Nat :=
  if floatSyntax s then
    match denote s with
    | some n =>
      let lim : Int := match w with | .w32 => 2 ^ 24 | .w64 => 2 ^ 53
      if n ≠ 0 ∧ -lim ≤ n ∧ n ≤ lim then some (intToFBits w n) else some UNKNOWN
    | none => some UNKNOWN
  else none

def ops : FloatOps := ⟨intToFBits, fToFBits, fToIntBits, parseFBits⟩

/-! ## parsing of the line protocol -/

def listOf (body : String) : List String := if body.isEmpty then [] else body.splitOn ","

def allSome {α : Type} : List (Option α) → Option (List α)
  | [] => some []
  | none :: _ => none
  | some x :: xs => (allSome xs).map (x :: ·)

def intList (body : String) : Option (List Int) := allSome ((listOf body).map String.toInt?)
def natList (body : String) : Option (List Nat) := allSome ((listOf body).map String.toNat?)
def strList (body : String) : Option (List (List Char)) := allSome ((listOf body).map unhexStr)

def kindBody (tok : String) : String × String :=
  match tok.splitOn ":" with
  | [k] => (k, "")
  | k :: b :: _ => (k, b)
  | [] => ("", "")

def intKind (k : String) : Option IntTy :=
  match k with
  | "U8" => some .u8 | "I16" => some .i16 | "U16" => some .u16 | "I32" => some .i32
  | "U32" => some .u32 | "I64" => some .i64 | "U64" => some .u64 | _ => none

def parsePV (tok : String) : Option PV :=
  let (k, b) := kindBody tok
  match k with
  | "E" => some .empty
  | "S" => (unhexStr b).map .str
  | "SS" => (strList b).map .strs
  | "T" => (strList b).map .tags
  | "F32" => (natList b).map .f32
  | "F64" => (natList b).map .f64
  | "DA" => (strList b).map .date
  | "DT" => (strList b).map .dateTime
  | "TM" => (strList b).map .time
  | _ => match intKind k with
    | some T => (intList b).map (.ints T)
    | none => none

def parseVal (tok : String) : Option Val :=
  let (k, b) := kindBody tok
  match k with
  | "SQ" => (natList b).map .seq
  | "PX" => match b.splitOn "/" with
    | [o, f] => match natList o, natList f with
      | some o, some f => some (.pix o f)
      | _, _ => none
    | _ => none
  | _ => (parsePV tok).map .prim

def parseFItems (body : String) : Option (List FItem) :=
  allSome ((listOf body).map fun t =>
    match t.splitOn "/" with
    | [b, x] => match b.toNat?, unhexStr x with
      | some b, some x => some ⟨b, x⟩
      | _, _ => none
    | _ => none)

def parseOp (tok : String) : Option Op :=
  let (k, b) := kindBody tok
  match k with
  | "tr" => b.toNat?.map .truncate
  | "xs" => (strList b).map fun l => .extend (.strs l)
  | "xu16" => (intList b).map fun l => .extend (.ints .u16 l)
  | "xi16" => (intList b).map fun l => .extend (.ints .i16 l)
  | "xi32" => (intList b).map fun l => .extend (.ints .i32 l)
  | "xu32" => (intList b).map fun l => .extend (.ints .u32 l)
  | "xf32" => (parseFItems b).map fun l => .extend (.floats .w32 l)
  | "xf64" => (parseFItems b).map fun l => .extend (.floats .w64 l)
  | _ => none

/-- a conversion result token: `err`, `ok:<list>`, `panic` -/
inductive Res | err | ok (l : List Int) | panic | bad
deriving DecidableEq

def parseRes (tok : String) : Res :=
  if tok == "err" then .err else if tok == "panic" then .panic
  else if tok.startsWith "ok:" then
    match intList (tok.drop 3).toString with
    | some l => .ok l
    | none => .bad
  else .bad

def showRes : Res → String
  | .err => "err" | .panic => "panic" | .bad => "bad"
  | .ok l => "ok:" ++ ",".intercalate (l.map toString)

def ofOpt1 : Option Int → Res
  | none => .err
  | some n => .ok [n]
def ofOptL : Option (List Int) → Res
  | none => .err
  | some l => .ok l

/-- model float results may contain `UNKNOWN` -/
def floatAgree : Res → Res → Bool
  | .err, .err => true
  | .ok m, .ok i => m.length == i.length && (m.zip i).all fun (a, b) => a == (UNKNOWN : Int) || a == b
  | _, _ => false

def intTys : List IntTy := [.u8, .i8, .u16, .i16, .u32, .i32, .u64, .i64]

def tyName : IntTy → String
  | .u8 => "u8" | .i8 => "i8" | .u16 => "u16" | .i16 => "i16"
  | .u32 => "u32" | .i32 => "i32" | .u64 => "u64" | .i64 => "i64"

/-! ## the property, evaluated on the implementation's results -/

def Val.pv? : Val → Option PV
  | .prim v => some v
  | _ => none

/-- oracle for the 20 results of one value; `none` = fine -/
def convOracle (v : Val) (res : List Res) : Option String := Id.run do
  if res.any (· == .panic) then return some "class=conversion-panic"
  let stored : Option (List Stored) := (Val.pv? v).bind storedInts
  -- a failure that is a recorded finding does not hide other failures of the same case
  let mut known : Option String := none
  let mut i := 0
  for T in intTys do
    let single := res.getD (2 * i) .bad
    let multi := res.getD (2 * i + 1) .bad
    i := i + 1
    -- to_multi_int: exactly the stored numbers, all in range; refused only if one is not representable
    match multi with
    | .ok l =>
      match stored with
      | none => return some s!"class=multi-int-from-nonnumeric target={tyName T}"
      | some items =>
        if l.length ≠ items.length then
          return some s!"class=multi-int-count target={tyName T} got={l.length} stored={items.length}"
        if !(l.zip items).all (fun (n, it) => it.val == some n && decide (InRange T n)) then
          return some s!"class=multi-int-inexact target={tyName T} got={showRes multi}"
    | .err =>
      match stored with
      | some items =>
        if items.all (fun it => representableStmt T it) then
          if items.isEmpty then return some s!"class=multi-empty target={tyName T}"
          if items.all (fun it => representable T it) then
            return some s!"class=multi-int-refused target={tyName T}"
          -- every item is a number that fits, yet refused: a zero written with a minus sign
          if known.isNone then
            known := some s!"class=negative-zero-unsigned conv=to_multi_int target={tyName T}"
      | none => pure ()
    | _ => return some "class=bad-result"
    -- to_int: the first stored number
    match single with
    | .ok [n] =>
      match stored with
      | some (it :: _) =>
        if !(it.val == some n && decide (InRange T n)) then
          return some s!"class=int-inexact target={tyName T} got={n}"
      | _ => return some s!"class=int-from-nothing target={tyName T} got={n}"
    | .err =>
      match stored with
      | some (it :: _) =>
        if representableStmt T it then
          if representable T it then return some s!"class=int-refused target={tyName T}"
          if known.isNone then
            known := some s!"class=negative-zero-unsigned conv=to_int target={tyName T}"
      | _ => pure ()
    | _ => return some "class=bad-result"
  -- floats: one result per stored value, in order; single = first
  let card := match v with | .prim p => p.card | _ => 0
  let fconv := match v with | .prim p => floatConvertible p | _ => false
  for (w, k) in [(FW.w32, 16), (FW.w64, 18)] do
    let single := res.getD k .bad
    let multi := res.getD (k + 1) .bad
    match multi with
    | .ok l =>
      if !fconv then return some "class=multi-float-from-nonnumeric"
      if l.length ≠ card then return some s!"class=multi-float-count got={l.length} stored={card}"
      -- same width: the stored numbers themselves
      match v, w with
      | .prim (.f32 s), .w32 | .prim (.f64 s), .w64 =>
        if l ≠ s.map Int.ofNat then return some "class=multi-float-inexact"
      | _, _ => pure ()
      match single, l with
      | .ok [b], x :: _ => if b ≠ x then return some "class=float-not-first"
      | .err, _ :: _ => return some "class=float-refused"
      | _, _ => pure ()
    | .err =>
      if fconv ∧ !(textual v) then
        if card = 0 then return some s!"class=multi-empty target=f{if w = .w32 then 32 else 64}"
        return some "class=multi-float-refused"
    | _ => return some "class=bad-result"
  return known
where
  textual : Val → Bool
    | .prim (.str _) | .prim (.strs (_ :: _)) => true
    | _ => false

def modelConv (v : Val) : List Res :=
  (intTys.flatMap fun T => [ofOpt1 (v.toInt T), ofOptL (v.toMultiInt T)]) ++
  [ofOpt1 ((v.toFloat ops .w32).map Int.ofNat), ofOptL ((v.toMultiFloat ops .w32).map (·.map Int.ofNat)),
   ofOpt1 ((v.toFloat ops .w64).map Int.ofNat), ofOptL ((v.toMultiFloat ops .w64).map (·.map Int.ofNat))]

def convDiff (v : Val) (res : List Res) : Option String := Id.run do
  let m := modelConv v
  if m.length ≠ res.length then return some "result count"
  let mut i := 0
  for (a, b) in m.zip res do
    let same := if i < 16 then a == b else floatAgree a b
    if !same then return some s!"conv#{i} model={showRes a} impl={showRes b}"
    i := i + 1
  return none

def pvKind : PV → String
  | .empty => "E" | .str _ => "S" | .strs _ => "SS" | .tags _ => "T"
  | .ints k _ => (tyName k).toUpper | .f32 _ => "F32" | .f64 _ => "F64"
  | .date _ => "DA" | .dateTime _ => "DT" | .time _ => "TM"

def valKind : Val → String
  | .prim p => pvKind p | .seq _ => "SQ" | .pix _ _ => "PX"

def cardClass (n : Nat) : String := if n = 0 then "n0" else if n = 1 then "n1" else "nN"

def textClass (v : Val) : String :=
  let ss := match v with
    | .prim (.str s) => [s] | .prim (.strs l) => l | _ => []
  if ss.isEmpty then "" else
  let padded := ss.any fun s => trimWN s ≠ s
  let bad := ss.any fun s => denote (trimWN s) = none
  let flt := ss.any fun s => denote (trimWN s) = none ∧ floatSyntax (trimWN s)
  let neg0 := ss.any fun s => (trimWN s).head? = some '-' ∧ denote (trimWN s) = some 0
  (if padded then "-pad" else "") ++ (if neg0 then "-negzero" else if flt then "-floattext" else if bad then "-badtext" else "")

/-! ## histories -/

def resTok (r : Except ModErr PV) : String :=
  match r with
  | .ok _ => "ok" | .error .incompatibleString => "err:str" | .error .incompatibleNumber => "err:num"

def opKind : Op → String
  | .truncate _ => "tr"
  | .extend (.strs _) => "xs"
  | .extend (.ints T _) => "x" ++ tyName T
  | .extend (.floats .w32 _) => "xf32"
  | .extend (.floats .w64 _) => "xf64"

/-- one step against the list model (the property), then against the model.
Returns the verdict (if bad). -/
def histStepP (before : PV) (op : Op) (res : String) (after : PV) : Option String :=
  match op with
  | .truncate n =>
    -- documented: trailing items removed to fit the limit; the kind of value stays, except that a
    -- single string that loses its item becomes the empty value
    let want := before.items.take n
    let kindOk := pvKind after = pvKind before ∨ (pvKind before = "S" ∧ n = 0 ∧ after = .empty)
    if after.items ≠ want ∨ ¬ kindOk then
      match before with
      | .str _ =>
        if n = 0 ∧ after = before then some "PROP-FAIL class=truncate-str-limit0 Str value keeps its item after truncate(0)"
        else some s!"PROP-FAIL class=truncate-items limit={n}"
      | _ => some s!"PROP-FAIL class=truncate-items limit={n}"
    else if truncate n before ≠ after then some "MODEL-DIFF truncate" else none
  | .extend e =>
    if res = "ok" then
      if ¬ extendCompatible before e then some "PROP-FAIL class=extend-accepted-incompatible"
      else if after.items ≠ before.items ++ appended ops before e then
        some s!"PROP-FAIL class=extend-items op={opKind op}"
      else if pvKind after ≠ kindAfterExtend (pvKind before) (opKind op) then
        some s!"PROP-FAIL class=extend-kind op={opKind op}"
      else if (match extend ops before e with | .ok v => decide (v ≠ after) | .error _ => true) then some s!"MODEL-DIFF extend op={opKind op}" else none
    else
      if after ≠ before then some "PROP-FAIL class=failed-extend-changed-value"
      else if extendCompatible before e then some s!"PROP-FAIL class=extend-refused op={opKind op}"
      else if resTok (extend ops before e) ≠ res then some s!"MODEL-DIFF extend result op={opKind op}" else none
where
  kindAfterExtend (k : String) (o : String) : String :=
    if k = "S" then "SS"
    else if k = "E" then (if o = "xs" then "SS" else (o.drop 1).toString.toUpper)
    else k

def textOf (v : Val) : String :=
  match v with
  | .prim (.str s) => hexOfStr s
  | .prim (.strs l) => ",".intercalate (l.map hexOfStr)
  | _ => "-"

def handleConv (v : Val) (toks : List String) (sigPre : String) : String :=
  let res := toks.map parseRes
  if res.length ≠ 20 ∨ res.any (· == .bad) then "BAD-LINE" else
  let orc := convOracle v res
  let isKnown := match orc with | some f => f.startsWith "class=negative-zero-unsigned" | none => false
  match orc, isKnown, convDiff v res with
  | some f, false, _ => s!"PROP-FAIL {f} value={valKind v}"
  | some _, true, some d => s!"MODEL-DIFF {d}"
  | some f, true, none => s!"PROP-FAIL {f} value={valKind v} text={textOf v}"
  | none, _, d =>
    match d with
    | some d => s!"MODEL-DIFF {d}"
    | none =>
      let card := match v with | .prim p => p.card | .seq l => l.length | .pix _ f => f.length
      let nok := (intTys.zipIdx.filter fun (_, i) => match res.getD (2 * i) .bad with | .ok _ => true | _ => false).length
      let triv := match v with | .prim .empty => "trivial-" | _ => ""
      s!"ok {triv}{sigPre}-{valKind v}-{cardClass card}-int{nok}{textClass v}"

partial def histLoop (level : String) (cur : Val) (toks : List String) (kinds : List String)
    (known : Option String) : String :=
  match toks with
  | [] => known.getD s!"ok hist-{level}-{kinds.getLast?.getD ""}-{valKind cur}-{String.intercalate "+" (kinds.dropLast.eraseDups.mergeSort (· ≤ ·))}"
  | "end" :: rest =>
    let r := handleConv cur rest s!"hist-{kinds.getLast?.getD ""}-{kinds.dropLast.eraseDups.length}ops"
    -- a recorded finding met on the way is reported unless something else is wrong
    match known with
    | some k => if r.startsWith "ok" then k else r
    | none => r
  | o :: r :: a :: rest =>
    match parseOp o, parseVal a with
    | some op, some after =>
      match cur, after with
      | .prim b, .prim af =>
        match histStepP b op r af with
        | some bad =>
          if bad.startsWith "PROP-FAIL class=truncate-str-limit0" then
            histLoop level after rest (opKind op :: kinds) (known <|> some bad)
          else bad
        | none => histLoop level after rest (opKind op :: kinds) known
      | _, _ =>
        -- Value::truncate on sequences / pixel fragment sequences
        match op with
        | .truncate n =>
          let want := Val.truncate n cur
          let itemsOk := match cur, after with
            | .seq l, .seq l' => l' = l.take n
            | .pix o f, .pix o' f' => o' = o ∧ f' = f.take n
            | _, _ => false
          if !itemsOk then s!"PROP-FAIL class=truncate-items limit={n}"
          else if want ≠ after then "MODEL-DIFF Value::truncate"
          else histLoop level after rest (opKind op :: kinds) known
        | _ => "BAD-LINE"
    | _, _ => "BAD-LINE"
  | _ => "BAD-LINE"

def handle (line : String) : String :=
  match tokens line with
  | "conv" :: level :: val :: res =>
    match parseVal val with
    | some v => handleConv v res s!"conv-{level}"
    | none => "BAD-LINE"
  | "hist" :: level :: val :: rest =>
    match parseVal val with
    | some v => histLoop level v rest [valKind v] none
    | none => "BAD-LINE"
  | _ => "BAD-LINE"

def main : IO Unit := Driver.run handle
