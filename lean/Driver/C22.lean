import DicomModel.Model.Util
import DicomModel.Model.Lut
import Driver.Loop
open Dicom Dicom.Lut

/-
C22 driver. See harness/src/bin/c22.rs for the line formats.

Three layers, in this order:
1. ORACLE (PROP-FAIL): the PS3.3 formulas evaluated in exact rational arithmetic (`Rat`) on the stored
   value as the property reads it, compared with the implementation's output within a rounding
   bound derived from the operand magnitudes; range `0 ≤ y ≤ ymax`; monotonicity of the outputs in
   the stored value (linear functions, slope ≥ 0); high bits ignored (probes).
2. MODEL (MODEL-DIFF): the generic model of the code instantiated with `Float` (binary64, same
   operations in the same order) — compared bit for bit for rescale / LINEAR / LINEAR_EXACT, and
   within 2 ulp for SIGMOID (`exp` of the C library linked into the driver vs. the one Rust calls may
   differ in the last place; one more ulp for the division that follows).
The float-level agreement is a test; the theorems (Props/C22.lean) are over exact arithmetic.
-/

/-! ### bit patterns -/

def hexNat (s : String) : Option Nat :=
  s.toList.foldl (fun acc c => match acc, hexVal c with
    | some a, some d => some (16 * a + d)
    | _, _ => none) (some 0)

/-- tail-recursive hex decoding (tables are up to 1 MB of hex) -/
def unhexGo : List Char → List Nat → Option (List Nat)
  | [], acc => some acc.reverse
  | [_], _ => none
  | a :: b :: rest, acc =>
    match hexVal a, hexVal b with
    | some x, some y => unhexGo rest ((16 * x + y) :: acc)
    | _, _ => none

def unhexTR (s : String) : Option (List Nat) := if s == "-" then some [] else unhexGo s.toList []

def floatOfBitsHex (s : String) : Option Float := (hexNat s).map fun n => Float.ofBits n.toUInt64

/-- exact value of a finite binary64 -/
def ratOfBits (n : Nat) : Option Rat :=
  let neg : Bool := n / 2 ^ 63 % 2 == 1
  let e : Nat := n / 2 ^ 52 % 2048
  let m : Nat := n % 2 ^ 52
  if e = 2047 then none
  else
    let (num, den) : Nat × Nat :=
      if e = 0 then (m, 2 ^ 1074)
      else if e ≥ 1075 then ((2 ^ 52 + m) * 2 ^ (e - 1075), 1)
      else (2 ^ 52 + m, 2 ^ (1075 - e))
    some (mkRat (if neg then -(num : Int) else (num : Int)) den)

def ratOfFloat (f : Float) : Option Rat := ratOfBits f.toBits.toNat

def absR (r : Rat) : Rat := if r < 0 then -r else r

/-! ### exact specification (PS3.3 C.11.2.1.2 / C.11.2.1.3), transcribed from the standard -/

/-- C.11.2.1.2.1: `if (x <= c - 0.5 - (w-1)/2) ymin; else if (x > c - 0.5 + (w-1)/2) ymax;
else ((x - (c - 0.5)) / (w-1) + 0.5) * (ymax - ymin) + ymin` -/
def specLinear (c w ymin ymax x : Rat) : Rat :=
  if x ≤ c - 1/2 - (w - 1) / 2 then ymin
  else if x > c - 1/2 + (w - 1) / 2 then ymax
  else ((x - (c - 1/2)) / (w - 1) + 1/2) * (ymax - ymin) + ymin

/-- C.11.2.1.3.2: `if (x <= c - w/2) ymin; else if (x > c + w/2) ymax;
else ((x - c) / w + 0.5) * (ymax - ymin) + ymin` -/
def specLinearExact (c w ymin ymax x : Rat) : Rat :=
  if x ≤ c - w / 2 then ymin
  else if x > c + w / 2 then ymax
  else ((x - c) / w + 1/2) * (ymax - ymin) + ymin

structure Par where
  slopeF : Float
  interF : Float
  widthF : Float
  centerF : Float
  slope : Rat
  inter : Rat
  width : Rat
  center : Rat

def parsePar (s i w c : String) : Option Par := do
  let sn ← hexNat s; let inn ← hexNat i; let wn ← hexNat w; let cn ← hexNat c
  let sr ← ratOfBits sn; let ir ← ratOfBits inn; let wr ← ratOfBits wn; let cr ← ratOfBits cn
  pure { slopeF := Float.ofBits sn.toUInt64, interF := Float.ofBits inn.toUInt64,
         widthF := Float.ofBits wn.toUInt64, centerF := Float.ofBits cn.toUInt64,
         slope := sr, inter := ir, width := wr, center := cr }

def parseFn (s : String) : Option VoiFn :=
  if s == "linear" then some .linear else if s == "exact" then some .linearExact
  else if s == "sigmoid" then some .sigmoid else none

def parseT (s : String) : Option OutT :=
  match s with
  | "u8" => some .u8 | "u16" => some .u16 | "i16" => some .i16 | "i32" => some .i32
  | "f32" => some .f32 | "f64" => some .f64 | _ => none

def Dicom.Lut.OutT.width : OutT → Nat
  | .u8 => 1 | .u16 => 2 | .i16 => 2 | .i32 => 4 | .f32 => 4 | .f64 => 8

def leNat : List Nat → Nat
  | [] => 0
  | b :: r => b + 256 * leNat r

/-- implementation output value: integer, or float (as binary64 value + the raw bits) -/
inductive IVal where
  | int (n : Int)
  | flt (f : Float) (bits : Nat)

def decodeVal (t : OutT) (bs : List Nat) : IVal :=
  let n := leNat bs
  match t with
  | .u8 => .int n
  | .u16 => .int n
  | .i16 => .int (if n ≥ 32768 then (n : Int) - 65536 else n)
  | .i32 => .int (if n ≥ 2147483648 then (n : Int) - 4294967296 else n)
  | .f32 => .flt (Float32.ofBits n.toUInt32).toFloat n
  | .f64 => .flt (Float.ofBits n.toUInt64) n

def IVal.show : IVal → String
  | .int n => toString n
  | .flt f b => s!"{f}(bits {b})"

/-- split a byte list into values of width `w` -/
def chunkVals (t : OutT) : Nat → List Nat → List IVal → List IVal
  | 0, _, acc => acc.reverse
  | fuel + 1, bs, acc =>
    if bs.isEmpty then acc.reverse else chunkVals t fuel (bs.drop t.width) (decodeVal t (bs.take t.width) :: acc)

def IVal.toRat : IVal → Option Rat
  | .int n => some n
  | .flt f _ => ratOfFloat f

def IVal.leq : IVal → IVal → Bool
  | .int a, .int b => a ≤ b
  | .flt a _, .flt b _ => a ≤ b
  | _, _ => false

/-! ### oracle -/

structure Spec where
  kind : Kind
  fn : VoiFn
  p : Par
  ymax : Rat

def pow2neg (k : Nat) : Rat := mkRat 1 (2 ^ k)
def p51 : Rat := pow2neg 51
def p49 : Rat := pow2neg 49
def p52 : Rat := pow2neg 52
def p23 : Rat := pow2neg 23
def p149 : Rat := pow2neg 149

/-- exact expected value and a bound on the rounding error of the `f64` evaluation, for stored
value `x`; `none` for SIGMOID (not rational) -/
def Spec.expect (s : Spec) (x : Rat) : Option (Rat × Rat) :=
  if s.kind != .rescaleOnly && s.fn == .sigmoid then none else
  let useRescale := s.kind == .rescaleOnly || s.kind == .rescaleWindow || s.kind == .rescaleWindow8
  let r := if useRescale then s.p.slope * x + s.p.inter else x
  let er := if useRescale then (absR (s.p.slope * x) + absR s.p.inter + absR r) * p51 else 0
  if s.kind == .rescaleOnly then some (r, er)
  else
    match s.fn with
    | .sigmoid => none
    | .linear =>
      let w := if s.p.width < 1 then 1 else s.p.width
      let y := specLinear s.p.center w 0 s.ymax r
      let d := w - 1
      let enum := er + (absR r + absR s.p.center + 1) * p51
      -- width 1: a step at c − 1/2; a rescaled value within its own rounding error of the step may land on either side
      let tol := if d = 0 then (if absR (r - (s.p.center - 1/2)) ≤ enum then s.ymax else 0)
        else s.ymax * (enum / d + p49 * (absR (r - (s.p.center - 1/2)) / d + 1))
      some (y, tol)
    | .linearExact =>
      let w := if s.p.width < 0 then 0 else s.p.width
      let y := specLinearExact s.p.center w 0 s.ymax r
      let enum := er + (absR r + absR s.p.center + 1) * p51
      -- width 0: a step at c (same remark)
      let tol := if w = 0 then (if absR (r - s.p.center) ≤ enum then s.ymax else 0)
        else s.ymax * (enum / w + p49 * (absR (r - s.p.center) / w + 1))
      some (y, tol)

/-- SIGMOID (C.11.2.1.3.1, `y = ymax / (1 + exp(-4 (x - c) / w))`) is not rational: the oracle
evaluates the standard's formula in binary64 and accepts a relative deviation of 1e-9 of `ymax`
(far above any rounding effect, far below any change of the formula) -/
def Spec.sigmoidBad (s : Spec) (t : OutT) (x : Int) (o : IVal) : Bool :=
  let useRescale := s.kind == .rescaleOnly || s.kind == .rescaleWindow || s.kind == .rescaleWindow8
  let xf := Float.ofInt x
  let r := if useRescale then s.p.slopeF * xf + s.p.interF else xf
  let w := if s.p.widthF < 1.0 then 1.0 else s.p.widthF
  let ymax := Float.ofInt s.ymax.num
  let y := ymax / (1.0 + Float.exp (-4.0 * (r - s.p.centerF) / w))
  let tol := 1e-9 * ymax + (if t == .f32 then 1e-6 * ymax else 0.0)
  match o with
  | .int n => !((Float.ofInt n - y).abs < 1.0 + tol)
  | .flt f _ => !((f - y).abs ≤ tol)

/-- is the implementation's output compatible with the exact value `y` (rounding bound `tol`)? -/
def compatible (t : OutT) (out : IVal) (y tol : Rat) : Bool :=
  match out with
  | .int n => absR ((n : Rat) - y) < 1 + tol
  | .flt f _ =>
    match ratOfFloat f with
    | none => false
    | some o =>
      let extra := if t == .f32 then absR y * p23 + p149 else 0
      absR (o - y) ≤ tol + extra + absR y * p52

/-! ### model comparison -/

def ulpDist (a b : Nat) : Nat := if a ≥ b then a - b else b - a

/-- model value vs implementation value. `slack` = allowed distance in units of the last place
(0 for the linear paths) -/
def sameVal (slack : Nat) (m : Option (OutVal Float)) (o : IVal) (t : OutT) (pre : Float) : Bool :=
  match m, o with
  | some (.int a), .int b =>
    if slack = 0 then a == b
    else a == b || ((a - b).natAbs ≤ 1 &&
      -- truncation may differ only when the value is within `slack` ulp of an integer
      (let fr := pre - pre.floor
       fr < 1e-9 || fr > 1 - 1e-9))
  | some (.flt a), .flt _ bits =>
    let abits := if t == .f32 then a.toFloat32.toBits.toNat else a.toBits.toNat
    if slack = 0 then abits == bits else ulpDist abits bits ≤ slack
  | _, _ => false

def showM : Option (OutVal Float) → String
  | none => "err"
  | some (.int n) => toString n
  | some (.flt f) => s!"{f}(bits {f.toBits.toNat})"

def kindOf (s : String) : Option Kind :=
  match s with
  | "rescale" => some .rescaleOnly
  | "rescale-window" => some .rescaleWindow
  | "window" => some .windowOnly
  | "rescale-window8" => some .rescaleWindow8
  | "window8" => some .window8
  | _ => none

def isWindowed (k : Kind) : Bool := k != .rescaleOnly

def ymaxOf (k : Kind) (bits : Nat) : Int :=
  match k with
  | .rescaleWindow8 => 255
  | .window8 => 255
  | _ => yMax bits

/-- walk over `(index, stored value x, impl output)`; returns the first complaint -/
def walk (spec : Spec) (cfg : Cfg Float) (t : OutT) (slack : Nat) (inputOf : Nat → Int) :
    List (Nat × IVal) → Option String
  | [] => none
  | (i, o) :: rest =>
    let x := inputOf i
    -- oracle (exact arithmetic): every entry of tables up to 4096 entries; every `size/2048`-th
    -- entry, both ends and the sign wrap of larger ones
    let size := 2 ^ cfg.bitsStored
    let sampled : Bool := size ≤ 4096 || i % (size / 2048) == 0 || i < 8 || i + 8 ≥ size ||
      (i + 8 ≥ size / 2 && i < size / 2 + 8)
    let bad : Option String :=
      if !sampled then none else
      match spec.expect x with
      | some (y, tol) =>
        if compatible t o y tol then none
        else some s!"PROP-FAIL class=formula-{if spec.kind == .rescaleOnly then "rescale" else (if spec.fn == .linear then "linear" else "linear-exact")} stored value {x}: impl={o.show} exact={y.floor}+{(y - y.floor)} tol={tol.num}/{tol.den}"
      | none =>
        if spec.sigmoidBad t x o then some s!"PROP-FAIL class=formula-sigmoid stored value {x}: impl={o.show} is not ymax/(1+exp(-4(x-c)/w))"
        else none
    match bad with
    | some m => some m
    | none =>
      -- range
      let rangeBad : Bool := isWindowed spec.kind &&
        (match o with
         | .int n => n < 0 || (n : Rat) > spec.ymax
         | .flt f _ => !(f ≥ 0 && f ≤ Float.ofInt spec.ymax.num))
      if rangeBad then some s!"PROP-FAIL class=out-of-range stored value {x}: impl={o.show} not in [0,{spec.ymax.num}]" else
      -- model
      let pre := lutValue floatOps cfg (sampleIndex cfg.bitsStored i)
      let m := lutEntry floatOps cfg t (sampleIndex cfg.bitsStored i)
      if !(sameVal slack m o t pre) then
        some s!"MODEL-DIFF stored value {x} (index {i}): model={showM m} impl={o.show}"
      else walk spec cfg t slack inputOf rest

/-- outputs in increasing order of the stored value must not decrease -/
def monotone : List IVal → Bool
  | a :: b :: rest => a.leq b && monotone (b :: rest)
  | _ => true

def handleLut (toks : List String) : String :=
  match toks with
  | [kindS, bitsS, signedS, tS, fnS, sS, iS, wS, cS, probesS, "R", res] | [kindS, bitsS, signedS, tS, fnS, sS, iS, wS, cS, probesS, "R", res, _] =>
    let probeRes := match toks with | [_, _, _, _, _, _, _, _, _, _, _, _, pr] => pr | _ => "-"
    match kindOf kindS, bitsS.toNat?, signedS.toNat?, parseT tS, parseFn fnS, parsePar sS iS wS cS, unhex probesS with
    | some kind, some bits, some sg, some t, some fn, some p, some probesB =>
      let signed := sg == 1
      let size := 2 ^ bits
      let cfg : Cfg Float := { kind := kind, bitsStored := bits, signed := signed, slope := p.slopeF, intercept := p.interF, fn := fn, width := p.widthF, center := p.centerF }
      let spec : Spec := { kind := kind, fn := fn, p := p, ymax := (ymaxOf kind bits : Int) }
      let slack := if isWindowed kind && fn == .sigmoid then 2 else 0
      let modelErr : Unit → Bool := fun _ => (List.range size).any fun i => (lutEntry floatOps cfg t i).isNone
      let sgS := if signed then "s" else "u"
      let fS := if isWindowed kind then fnS else "-"
      let sig := s!"lut-{kindS}-b{bits}-{sgS}-{tS}-{fS}"
      if res == "panic" then "PROP-FAIL class=lut-panic constructor panicked" else
      if res == "err" then
        -- oracle: an error is justified only if some exact value is at or beyond the target range
        let justified : Bool := match t.bounds with
          | none => false
          | some (lo, hi) => (List.range size).any fun i =>
            match spec.expect (lutInput bits signed i) with
            | some (y, tol) => y ≤ (lo : Rat) + 1 + tol || y ≥ (hi : Rat) - 1 - tol
            | none => true
        if !justified then "PROP-FAIL class=unexpected-lut-error every exact value fits the output type but the constructor failed"
        else if !(modelErr ()) then "MODEL-DIFF model builds the table, impl=err"
        else s!"ok {sig}-err"
      else if !res.startsWith "ok:" then "BAD-LINE" else
      match unhexTR (res.drop 3).toString, unhexTR probeRes with
      | some tabB, some prB =>
        let vals := chunkVals t (size + 1) tabB []
        if vals.length ≠ size then "BAD-LINE" else
        -- high bits ignored
        let probes := (List.range (probesB.length / 4)).map fun k => leNat ((probesB.drop (4 * k)).take 4)
        let pvals := chunkVals t (probes.length + 1) prB []
        let arr := vals.toArray
        let maskBad := (List.range probes.length).find? fun k =>
          match pvals[k]?, arr[(probes.getD k 0) % size]? with
          | some (.int a), some (.int b) => a ≠ b
          | some (.flt _ a), some (.flt _ b) => a ≠ b
          | _, _ => true
        if let some k := maskBad then
          s!"PROP-FAIL class=high-bits-not-ignored get({probes.getD k 0}) differs from get({(probes.getD k 0) % size})"
        else
        -- monotone in the stored value
        let order := if signed then (List.range (size / 2)).map (· + size / 2) ++ List.range (size / 2) else List.range size
        let order := if signed && size = 1 then [0] else order
        let linearFn := !(isWindowed kind) || fn != .sigmoid
        let slopeOk := kind == .windowOnly || kind == .window8 || p.slope ≥ 0
        let seq := order.filterMap fun i => arr[i]?
        if slopeOk && !(monotone seq) then
          s!"PROP-FAIL class=not-monotone{if linearFn then "" else "-sigmoid"} outputs decrease somewhere as the stored value increases"
        else
        match walk spec cfg t slack (lutInput bits signed) ((List.range size).zip vals) with
        | some m => m
        | none => s!"ok {sig}"
      | _, _ => "BAD-LINE"
    | _, _, _, _, _, _, _ => "BAD-LINE"
  | _ => "BAD-LINE"

/-- raw conversion without LUT (`ModalityLutOption::None`): `T::from(sample)` -/
def rawConvert (t : OutT) (alloc : Nat) (signed : Bool) (sample : Nat) : Option (OutVal Float) :=
  let v : Int := if alloc = 16 ∧ signed ∧ sample ≥ 32768 then (sample : Int) - 65536 else sample
  match t.bounds with
  | some (lo, hi) => if lo < v ∧ v < hi then some (.int v) else none
  | none => some (.flt (Float.ofInt v))

def handleVec (toks : List String) : String :=
  match toks with
  | [allocS, storedS, signedS, tS, modS, voiS, fnS, sS, iS, wS, cS, via, dataS, "R", res] =>
    match allocS.toNat?, storedS.toNat?, signedS.toNat?, parseT tS, parseFn fnS, parsePar sS iS wS cS, unhexTR dataS with
    | some alloc, some stored, some sg, some t, some fn, some p, some data =>
      let signed := sg == 1
      let samples : List Nat :=
        if alloc = 8 then data else (List.range (data.length / 2)).map fun k => data.getD (2 * k) 0 + 256 * data.getD (2 * k + 1) 0
      let windowed := voiS == "first" || voiS == "custom" || voiS == "customfn"
      let kind : Kind := if windowed then .rescaleWindow else .rescaleOnly
      let lbits := lutBitsFor alloc stored
      let cfg : Cfg Float := { kind := kind, bitsStored := lbits, signed := signed, slope := p.slopeF, intercept := p.interF, fn := fn, width := p.widthF, center := p.centerF }
      let spec : Spec := { kind := kind, fn := fn, p := p, ymax := (yMax lbits : Int) }
      let slack := if windowed && fn == .sigmoid then 2 else 0
      let sgS := if signed then "s" else "u"
      let fS := if windowed then fnS else "-"
      let sig := s!"vec-a{alloc}-b{stored}-{sgS}-{tS}-{modS}-{voiS}-{fS}-{via}"
      let model : List (Option (OutVal Float)) :=
        if modS == "none" then samples.map (rawConvert t alloc signed)
        else samples.map fun s => lutGet floatOps cfg t s
      -- the constructor fails if any table entry fails, also entries no sample uses
      let tableErr := modS != "none" && (List.range (2 ^ lbits)).any fun i => (lutEntry floatOps cfg t i).isNone
      let modelErr := tableErr || model.any Option.isNone
      if res == "panic" then "PROP-FAIL class=vec-panic conversion panicked" else
      if res == "err" then
        if modelErr then s!"ok {sig}-err" else "MODEL-DIFF model converts, impl=err"
      else if !res.startsWith "ok:" then "BAD-LINE" else
      match unhexTR (res.drop 3).toString with
      | none => "BAD-LINE"
      | some outB =>
        let vals := chunkVals t (samples.length + 1) outB []
        if vals.length ≠ samples.length then
          s!"PROP-FAIL class=vec-length {vals.length} values for {samples.length} samples" else
        -- oracle: the stored value as the property reads it (bits stored, pixel representation,
        -- bits above the high bit ignored)
        let oracleBad : Option String :=
          if modS == "none" then none else
          (samples.zip vals).findSome? fun (s, o) =>
            let x := storedValue stored signed s
            match spec.expect x with
            | some (y, tol) =>
              if compatible t o y tol then none
              else some s!"PROP-FAIL class={if alloc = 8 ∧ stored < 8 then "bits-stored-ignored-8bit" else "sample-value"} sample {s} (stored value {x}, bits stored {stored}, {if signed then "signed" else "unsigned"}): impl={o.show} exact={y.floor}+{y - y.floor}"
            | none =>
              if spec.sigmoidBad t x o then some s!"PROP-FAIL class={if alloc = 8 ∧ stored < 8 then "bits-stored-ignored-8bit" else "sample-value"}-sigmoid sample {s} (stored value {x}): impl={o.show} is not ymax/(1+exp(-4(x-c)/w))"
              else none
        match oracleBad with
        | some m => m
        | none =>
          if modelErr then "MODEL-DIFF model=err impl converts" else
          let bad := ((samples.zip vals).zip model).find? fun ((s, o), m) =>
            let pre := if modS == "none" then 0.0 else lutValue floatOps cfg (sampleIndex lbits s)
            !(sameVal slack m o t pre)
          match bad with
          | some ((s, o), m) => s!"MODEL-DIFF sample {s}: model={showM m} impl={o.show}"
          | none => s!"ok {sig}"
    | _, _, _, _, _, _, _ => "BAD-LINE"
  | _ => "BAD-LINE"

def handle (line : String) : String :=
  match tokens line with
  | "lut" :: rest => handleLut rest
  | "vec" :: rest => handleVec rest
  | _ => "BAD-LINE"

partial def profLoop (h : IO.FS.Stream) : IO Unit := do
  let line ← h.getLine
  if line.isEmpty then return ()
  let t0 ← IO.monoMsNow
  let toks := tokens line
  IO.eprintln s!"tokens {toks.length}"
  let t1 ← IO.monoMsNow
  let res := toks.getD 13 ""
  let b := unhexTR (res.drop 3).toString
  IO.eprintln s!"unhex {(b.getD []).length}"
  let t2 ← IO.monoMsNow
  let vals := chunkVals .f64 100000 (b.getD []) []
  IO.eprintln s!"chunk {vals.length}"
  let t3 ← IO.monoMsNow
  let r := handle ((line.splitOn " ").drop 1 |> " ".intercalate)
  IO.eprintln s!"handle {r.length}"
  let t4 ← IO.monoMsNow
  IO.eprintln s!"tokens {t1 - t0} unhex {t2 - t1} chunk {t3 - t2} handle {t4 - t3}"
  profLoop h

def main (args : List String) : IO Unit := do
  if args == ["prof"] then profLoop (← IO.getStdin) else Driver.run handle
