import DicomModel.Model.Util
import DicomModel.Model.Writer
import DicomModel.Model.Build
import DicomModel.Model.RefEncode
import Driver.Loop
import Driver.Tree
open Dicom Driver

/-! Driver for C02, two stages.
`drv_c02 enc`   : `<ts> D <dict> T <tree>` → same line + `B <hex>`: the bytes of the independent reference
                  encoder `Ref.encElems` on the tree with its TRUE lengths (`Ref.fixElems`).
`drv_c02 check` : `… B <hex> W <no-change> <default> <set-undefined> R ok ( tree ) | err | panic`
  oracle (the statement): the no-change rewrite equals the original bytes; when every sequence and item
  has undefined length the default rewrite does too. Then the models: reader + builder on the bytes
  vs the real tree and vs the canonical tree (`reader_ref`), writer model vs the real outputs. -/

def tsOf3 (s : String) : Option Syntax :=
  if s == "0" then some .implicitLE else if s == "1" then some .explicitLE
  else if s == "2" then some .explicitBE else none

def parseDict (s : String) : Option (List (Tag × Option VR)) :=
  if s == "-" then some [] else
  allSome ((s.splitOn ",").map fun kv => match kv.splitOn "=" with
    | [k, v] => match parseTag8 k with
      | some t => if v == "none" then some (t, none) else (VR.ofName? v).map fun vr => (t, some vr)
      | none => none
    | _ => none)

def dictFn (d : List (Tag × Option VR)) : Tag → Option VR := fun t => (d.lookup t).getD none

mutual
/-- erase the `Display` text of floats (not part of a value that was read) -/
def elemNoTxt : Elem → Elem
  | .prim t vr l (.f32 c) => .prim t vr l (.f32 (c.map fun p => (p.1, [])))
  | .prim t vr l (.f64 c) => .prim t vr l (.f64 (c.map fun p => (p.1, [])))
  | .seq t l its => .seq t l (itemsNoTxt its)
  | e => e
def itemsNoTxt : Items → Items
  | .nil => .nil
  | .cons l es r => .cons l (elemsNoTxt es) (itemsNoTxt r)
def elemsNoTxt : Elems → Elems
  | .nil => .nil
  | .cons e r => .cons (elemNoTxt e) (elemsNoTxt r)
end

/-- the canonical tree of a case line -/
def caseTree (ts : Syntax) (treeToks : List String) : Option Elems :=
  (parseTree treeToks).map fun p => Ref.fixElems ts (elemsNoTxt p.1)

def handleEnc (line : String) : String :=
  match tokens line with
  | ts :: "D" :: dict :: "T" :: treeToks =>
    match tsOf3 ts with
    | some syn =>
      match caseTree syn treeToks with
      | some t => s!"{ts} D {dict} T {" ".intercalate treeToks} B {hexOf (Ref.encElems syn t)}"
      | none => "BAD-LINE"
    | none => "BAD-LINE"
  | _ => "BAD-LINE"

def parseW (s : String) : Option (Option Bytes) :=
  if s == "err" || s == "panic" || s == "-" then some none else
  match s.splitOn ":" with
  | ["ok", r, _] => (unhex r).map some
  | _ => none

def firstDiff : Bytes → Bytes → Nat → Nat
  | a :: r, b :: s, k => if a = b then firstDiff r s (k + 1) else k
  | _, _, k => k

def showW (o : Option Bytes) : String := match o with | some b => hexOf b | none => "fail"

def handleCheck (line : String) : String :=
  let toks := tokens line
  match toks with
  | ts :: "D" :: dict :: "T" :: rest =>
    let (treeToks, r1) := splitAt "B" rest
    match r1 with
    | hex :: "W" :: w1 :: w2 :: w3 :: "R" :: rtoks =>
      match tsOf3 ts, parseDict dict, unhex hex, parseW w1, parseW w2, parseW w3 with
      | some syn, some d, some bs, some nochange, some dflt, some setundef =>
        match caseTree syn treeToks with
        | none => "BAD-LINE tree"
        | some t =>
          let dictf := dictFn d
          if Ref.encElems syn t ≠ bs then "BAD-LINE stage-bytes" else
          if !Ref.canonical syn dictf t then "BAD-LINE generator-not-canonical" else
          let allUndef := Ref.allUndefElems t
          -- the property, on the implementation's outputs
          match rtoks with
          | ["panic"] => "PROP-FAIL class=read-panic"
          | ["err"] => "PROP-FAIL class=read-failed the canonical stream is rejected"
          | "ok" :: rt =>
            if nochange ≠ some bs then
              s!"PROP-FAIL class=nochange-rewrite-differs at={match nochange with | some w => toString (firstDiff bs w 0) | none => "write-failed"} orig={hexOf bs} got={showW nochange}"
            else if allUndef && dflt ≠ some bs then
              s!"PROP-FAIL class=default-rewrite-differs at={match dflt with | some w => toString (firstDiff bs w 0) | none => "write-failed"} orig={hexOf bs} got={showW dflt}"
            else
            match parseTree rt with
            | none => "BAD-LINE read-tree"
            | some (rtree0, _) =>
              let rtree := elemsNoTxt rtree0
              -- model reader + builder
              match readDataset syn dictf bs with
              | .error _ => "MODEL-DIFF read: model fails, implementation reads"
              | .ok mt =>
                if mt.tokens ≠ rtree.tokens then "MODEL-DIFF read: model tree ≠ implementation tree"
                else if mt.tokens ≠ t.tokens then "MODEL-DIFF read: tree read ≠ canonical tree (recorded lengths / values)"
                else
                -- model writer on the tree that was read
                let mw1 := match writeDataset syn .noChange rtree with | .ok b => some b | .error _ => none
                let mw2 := match writeDataset syn .setUndefined rtree with | .ok b => some b | .error _ => none
                if mw1 ≠ nochange then s!"MODEL-DIFF write no-change model={showW mw1} impl={showW nochange}"
                else if mw2 ≠ dflt then s!"MODEL-DIFF write default model={showW mw2} impl={showW dflt}"
                else if mw2 ≠ setundef then s!"MODEL-DIFF write set-undefined model={showW mw2} impl={showW setundef}"
                else
                  let prims := elemsPrims t
                  let triv := if prims.isEmpty ∧ elemsSeqTags t = [] ∧ !elemsHasPix t then "trivial-" else ""
                  s!"ok {triv}c02-{ts}-d{elemsDepth t}-n{min prims.length 6}-px{elemsHasPix t}-x{elemsHasExplicit t}-u{allUndef}"
          | _ => "BAD-LINE read-result"
      | _, _, _, _, _, _ => "BAD-LINE fields"
    | _ => "BAD-LINE layout"
  | _ => "BAD-LINE"

def main (args : List String) : IO Unit :=
  match args with
  | ["enc"] => Driver.run handleEnc
  | _ => Driver.run handleCheck
