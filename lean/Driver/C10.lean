import DicomModel.Model.Util
import DicomModel.Model.Charset
import Driver.Loop
open Dicom Dicom.CodePage Dicom.Charset Dicom.Charset.Gen
open Dicom.Registry (eqStr)

def toStr (tok : String) : Option Str := (unhexStr tok).map (·.map Char.toNat)
def hexStr (s : Str) : String := hexOfStr (s.map Char.ofNat)
def strOf (s : String) : Str := s.toList.map Char.toNat

def hexNat? (s : String) : Option Nat :=
  if s.isEmpty then none else
  s.toList.foldl (fun acc c => match acc, hexVal c with
    | some a, some d => some (16 * a + d)
    | _, _ => none) (some 0)

def csOfTerm (term : Str) : Option Cs := Cs.all.find? fun c => eqStr c.term term

def termName (term : Str) : String := (String.ofList (term.map Char.ofNat)).replace " " "_"

/-- the opaque codecs cannot be evaluated by the driver -/
def noExt : Cs → Codec := fun _ => ⟨fun _ => none, fun _ => []⟩

def isOpaque (cs : Cs) : Bool := match known cs with | .ext => true | _ => false

def hasSub (pat : Str) : Str → Bool
  | [] => pat.isEmpty
  | c :: cs => (pat.isPrefixOf (c :: cs)) || hasSub pat cs

/-- name of the finding a failed round trip belongs to -/
def classify (orig : List Str) (wire : List Nat) (read : List Str) (isStrs : Bool) : String :=
  if orig.any (fun s => s.contains 0xA5 || s.contains 0x203E) then "yen-overline-substituted"
  else if orig.any (·.contains 0xE5E5) then "gb18030-pua-substituted"
  else if orig.any (·.contains 0x1B) then "iso2022-esc-char"
  else if isStrs && (wire.filter (· == 92)).length + 1 > orig.length then "backslash-byte-in-multibyte"
  else if read.any (hasSub [92, 48, 52, 48]) then "iso2022-pad-after-double-byte"
  else "text-roundtrip"

/-! ### parsing of `ds` lines -/

def takeVals : Nat → List String → Option (List Str × List String)
  | 0, rest => some ([], rest)
  | n+1, t :: rest =>
    match toStr t, takeVals n rest with
    | some v, some (vs, r) => some (v :: vs, r)
    | _, _ => none
  | _, [] => none

def parseForm (s : String) : Option Form :=
  if s == "str" then some .str else if s == "strs" then some .strs else none

/-- `<tag> <VR> <form> <k> <val>*k` repeated n times -/
def parseElems : Nat → List String → Option (List Elem × List String)
  | 0, rest => some ([], rest)
  | n+1, tag :: vr :: form :: k :: rest =>
    match hexNat? tag, VR.ofName? vr, parseForm form, k.toNat? with
    | some tag, some vr, some form, some k =>
      match takeVals k rest with
      | some (vals, rest) =>
        match parseElems n rest with
        | some (es, rest) => some (⟨tag, vr, form, vals⟩ :: es, rest)
        | none => none
      | none => none
    | _, _, _, _ => none
  | _, _ => none

/-- `<tag> <VR> <bytes>` repeated n times -/
def parseWires : Nat → List String → Option (List Wire × List String)
  | 0, rest => some ([], rest)
  | n+1, tag :: vr :: b :: rest =>
    match hexNat? tag, VR.ofName? vr, unhex b with
    | some tag, some vr, some b =>
      match parseWires n rest with
      | some (ws, rest) => some (⟨tag, vr, b⟩ :: ws, rest)
      | none => none
    | _, _, _ => none
  | _, _ => none

def splitBar (ts : List String) : List (List String) :=
  ts.foldr (fun t acc => if t == "|" then [] :: acc else match acc with
    | a :: r => (t :: a) :: r
    | [] => [[t]]) [[]]

/-- the character sets in force while writing each element (model of the switching) -/
def setsInForce : Cs → List Elem → List Cs
  | _, [] => []
  | cur, e :: es =>
    let used := if writerUsesDefault e.vr then Cs.Default else cur
    let cur' := if e.tag = scsTag then switchTo cur e.vals.head? else cur
    used :: cur :: setsInForce cur' es

def sameElem (a b : Elem) : Bool :=
  a.tag == b.tag && a.vr == b.vr && a.form == b.form && a.vals == b.vals

def showElem (e : Elem) : String :=
  s!"({hexOf [e.tag / 16777216 % 256, e.tag / 65536 % 256, e.tag / 256 % 256, e.tag % 256]} {e.vr.name} {if e.form == .str then "str" else "strs"} {e.vals.map hexStr})"

def handleDs (ts : List String) : String :=
  match splitBar ts with
  | (n :: orig) :: sections =>
    match n.toNat? with
    | none => "BAD-LINE"
    | some n =>
    match parseElems n orig with
    | some (elems, []) =>
      let sets := setsInForce .Default elems
      let opq := sets.any isOpaque
      let scsName := match elems.find? (·.tag == scsTag) with
        | some e => (match fromCode (e.vals.headD []) with | some c => c.ctorName | none => "unsupported")
        | none => "absent"
      let mWire := writeElems (codecOf noExt) .Default elems
      match sections with
      | [[w]] =>
        -- the implementation refused to write
        -- ORACLE: every value is made of characters which the set in force encodes (the generator
        -- guarantees it), so the data set must be writable
        if w == "write-err" then
          s!"PROP-FAIL class=write-rejects-repertoire scs={scsName} the writer rejected {elems.map showElem} although every value is encodable in the set in force (model writes: {mWire.isSome})"
        else s!"PROP-FAIL class=writer-failed scs={scsName} {w}"
      | ("wire" :: wn :: wrest) :: readSec =>
        match wn.toNat? with
        | none => "BAD-LINE"
        | some wn =>
        match parseWires wn wrest with
        | some (wires, []) =>
          -- what was read back
          let readRes : Option (Option (List Elem)) := match readSec with
            | [("read" :: rn :: rrest)] =>
              (match rn.toNat? with
               | some rn => (match parseElems rn rrest with
                  | some (res, []) => some (some res)
                  | _ => none)
               | none => none)
            | [[_]] => some none
            | _ => none
          match readRes with
          | none => "BAD-LINE"
          | some none => s!"PROP-FAIL class=dataset-unreadable the data set the writer produced cannot be read back (scs={scsName})"
          | some (some res) =>
            -- ORACLE (implementation only): every element reads back with the values it was given
            if res.length ≠ elems.length ∨ wires.length ≠ elems.length then
              s!"PROP-FAIL class=dataset-elements-lost wrote {elems.length} elements, read {res.length}"
            else
            let bad := (elems.zip (wires.zip res)).find? fun (e, _, r) =>
              e.tag != r.tag || normVals e.vals != normVals r.vals
            match bad with
            | some (e, w, r) =>
              s!"PROP-FAIL class={classify e.vals w.bytes r.vals (readKind e.vr != .str)} scs={scsName} element {showElem e} written as {hexOf w.bytes} read back as {showElem r}"
            | none =>
              if opq then s!"ok ds-opaque-{scsName}-{elems.length}" else
              -- MODEL: writer bytes, reader values
              match mWire with
              | none => "MODEL-DIFF model refuses to write, implementation wrote"
              | some mw =>
                if mw.map (·.bytes) ≠ wires.map (·.bytes) then
                  s!"MODEL-DIFF wire bytes: model={mw.map fun w => hexOf w.bytes} impl={wires.map fun w => hexOf w.bytes}"
                else
                  let mr := readElems (codecOf noExt) .Default wires
                  if !(mr.length == res.length && (mr.zip res).all fun (a, b) => sameElem a b) then
                    s!"MODEL-DIFF read values: model={mr.map showElem} impl={res.map showElem}"
                  else
                    let padded := wires.any fun w => w.bytes.length % 2 == 0 && (w.bytes.getLast? == some 32 || w.bytes.getLast? == some 0)
                    s!"ok ds-{scsName}-{if padded then "pad" else "nopad"}-{if elems.any (·.form == .str) then "str" else "strs"}"
        | _ => "BAD-LINE"
      | _ => "BAD-LINE"
    | _ => "BAD-LINE"
  | _ => "BAD-LINE"

/-! ### the other case kinds -/

def parseTriple (tok : String) : Option (Nat × List Nat × Option Str) :=
  match tok.splitOn ":" with
  | [c, b, d] =>
    match hexNat? c, unhex b with
    | some c, some b => if d == "err" then some (c, b, none) else (toStr d).map fun d => (c, b, some d)
    | _, _ => none
  | _ => none

def handle (line : String) : String :=
  match tokens line with
  | "encall" :: term :: kind :: n :: rest =>
    match toStr term, n.toNat?, rest.mapM parseTriple with
    | some term, some n, some entries =>
      match csOfTerm term with
      | none => s!"MODEL-DIFF the term table has no set named {termName term}"
      | some cs =>
      -- ORACLE: an accepted character must decode back to itself
      match entries.find? (fun (c, _, d) => d != some [c]) with
      | some (c, b, d) =>
        s!"PROP-FAIL class={classify [[c]] [] [] false} set={termName term} character U+{hexOf [c / 65536, c / 256 % 256, c % 256]} is accepted by encode (bytes {hexOf b}) but decodes to {(d.map hexStr).getD "error"}"
      | none =>
        if kind == "single" then
          match pageOf cs with
          | none => s!"MODEL-DIFF {termName term} is single-byte in the implementation but has no generated page"
          | some p =>
            if entries.length ≠ n then "BAD-LINE"
            else if entries.map (fun (c, b, _) => (c, b)) ≠ p.enc.toList.map (fun (c, b) => (c, [b])) then
              s!"MODEL-DIFF encode table of {termName term} differs from the generated page"
            else s!"ok encall-single-{termName term}-{n}"
        else if (pageOf cs).isSome then s!"MODEL-DIFF {termName term} is multi-byte in the implementation but has a generated page"
        else s!"ok encall-multi-{termName term}"
    | _, _, _ => "BAD-LINE"
  | ["dec1", term, b, d] =>
    match toStr term, b.toNat?, toStr d with
    | some term, some b, some d =>
      match csOfTerm term with
      | none => s!"MODEL-DIFF the term table has no set named {termName term}"
      | some cs =>
        match pageOf cs with
        | none => "ok dec1-multi"
        | some p =>
          if p.decodeByte b ≠ d then s!"MODEL-DIFF {termName term} byte {b}: model={hexStr (p.decodeByte b)} impl={hexStr d}"
          else s!"ok dec1-single-{if (p.dec.find b).isSome then "char" else "hole"}"
    | _, _, _ => "BAD-LINE"
  | ["code", code, res] =>
    match toStr code with
    | none => "BAD-LINE"
    | some code =>
      let m := fromCode code
      if res == "none" then
        if m.isSome then s!"MODEL-DIFF from_code: model={m.map (·.ctorName)} impl=none" else "ok code-unknown"
      else match res.splitOn ":" with
        | ["some", name, back] =>
          match toStr name with
          | none => "BAD-LINE"
          | some name =>
            -- ORACLE: the defined term maps back to the same set
            let tc := Charset.trimEndWs code
            let termForm := (strOf "ISO_IR ").isPrefixOf tc || tc == strOf "GB18030" || tc == strOf "GBK"
            if back ≠ "same" then s!"PROP-FAIL class=name-roundtrip from_code(name()) of the set named {termName name} gives {back}"
            else if termForm && name ≠ tc then
              s!"PROP-FAIL class=name-roundtrip the defined term {termName tc} selects the set whose defined term is {termName name}"
            else match m with
              | none => s!"MODEL-DIFF from_code: model=none impl={termName name}"
              | some cs =>
                if cs.term ≠ name then s!"MODEL-DIFF from_code: model={termName cs.term} impl={termName name}"
                else s!"ok code-{cs.ctorName}-{if Charset.trimEndWs code = code then "exact" else "padded"}"
        | _ => "BAD-LINE"
  | ["str", term, s, bad, enc, dec] =>
    match toStr term, toStr s, bad.toNat? with
    | some term, some s, some bad =>
      match csOfTerm term with
      | none => s!"MODEL-DIFF the term table has no set named {termName term}"
      | some cs =>
        if enc == "err" then
          -- ORACLE: text made only of characters the set accepts must be encodable
          if bad == 0 then s!"PROP-FAIL class=encode-rejects-repertoire set={termName term} text {hexStr s}"
          else match known cs with
            | .page p => if (p.encode s).isSome then "MODEL-DIFF model encodes, implementation rejects" else s!"ok str-rejected-{cs.ctorName}"
            | .utf8 => "MODEL-DIFF UTF-8 rejected a string"
            | .ext => s!"ok str-rejected-{cs.ctorName}"
        else
        match unhex enc, toStr dec with
        | some bytes, some d =>
          -- ORACLE: what was encoded decodes to the original (never a silent substitution)
          if d ≠ s then
            s!"PROP-FAIL class={classify [s] [] [] false} set={termName term} text {hexStr s} encoded as {enc} decodes to {hexStr d}"
          else match known cs with
            | .page p =>
              if p.encode s ≠ some bytes then s!"MODEL-DIFF encode: model={(p.encode s).map hexOf} impl={enc}"
              else if p.decode bytes ≠ d then s!"MODEL-DIFF decode: model={hexStr (p.decode bytes)} impl={hexStr d}"
              else s!"ok str-{cs.ctorName}-{if s.isEmpty then "empty" else if s.all (· < 128) then "ascii" else "nonascii"}"
            | .utf8 =>
              if utf8Enc s ≠ bytes ∨ utf8Dec bytes ≠ d then "MODEL-DIFF utf-8" else s!"ok str-{cs.ctorName}-{if s.all (· < 128) then "ascii" else "nonascii"}"
            | .ext => s!"ok str-{cs.ctorName}-{if s.all (· < 128) then "ascii" else "nonascii"}"
        | _, _ => if dec == "err" ∨ dec == "panic" then s!"PROP-FAIL class=decode-of-encoded-fails set={termName term} text {hexStr s}" else "BAD-LINE"
    | _, _, _ => "BAD-LINE"
  | ["bytes", term, b, d] =>
    match toStr term, unhex b, toStr d with
    | some term, some b, some d =>
      match csOfTerm term with
      | none => s!"MODEL-DIFF the term table has no set named {termName term}"
      | some cs =>
        match pageOf cs with
        | none => s!"ok bytes-unmodelled-{cs.ctorName}"
        | some p =>
          if p.decode b ≠ d then s!"MODEL-DIFF decode {hexOf b}: model={hexStr (p.decode b)} impl={hexStr d}"
          else s!"ok bytes-{cs.ctorName}-{if b.all fun x => (p.dec.find x).isSome then "valid" else "holes"}"
    | _, _, _ => "BAD-LINE"
  | "ds" :: rest => handleDs rest
  | _ => "BAD-LINE"

def main : IO Unit := Driver.run handle
