import DicomModel.Model.Util
import DicomModel.Model.DsReaderWords
import Driver.Loop
open Dicom Dicom.Rd

/-- split a token list at the `|` separators -/
def splitBar (l : List String) : List (List String) :=
  l.foldr (fun w acc => if w == "|" then [] :: acc else
    match acc with
    | a :: r => (w :: a) :: r
    | [] => [[w]]) [[]]

def syntaxOf (s : String) : Option Syntax :=
  if s == "i" || s == "0" then some .implicitLE
  else if s == "e" || s == "1" then some .explicitLE
  else if s == "b" || s == "2" then some .explicitBE
  else none

/-- skip leading stray item delimitation headers (the reader ignores them at top level) -/
def skipStray : Nat → Bytes → Bytes
  | 0, bs => bs
  | k + 1, bs =>
    match bs with
    | 0xFE :: 0xFF :: 0x0D :: 0xE0 :: _ :: _ :: _ :: _ :: r => skipStray k r
    | _ => bs

def vvrWord : String → Option VVr
  | "xs" => some .xs | "ox" => some .ox | "px" => some .px | "lt" => some .lt
  | s => (VR.ofName? s).map VVr.exact

def handleCompat (probed dict : String) (res : List String) : String :=
  match VR.ofName? probed, vvrWord dict with
  | some p, some d =>
    let code := p.toBytes
    let bytes : Bytes := [0x11, 0x00, 0x33, 0x22, code.1, code.2, 0, 0, 2, 0, 0, 0, 0, 0, 0, 0]
    let dictV : Tag → Option VVr := fun t => if t = ⟨0x0011, 0x2233⟩ then some d else none
    let (r, st) := adaptiveHeader dictV .unknown bytes
    let stW := match st with | .unknown => "unknown" | .explicit => "explicit" | .implicit => "implicit"
    let m := match r with
      | .ok h n _ => [stW, h.vr.name, toString h.len, toString n]
      | _ => ["err"]
    -- the table itself: locked to explicit exactly when the probed VR is compatible
    let want := if vrCompat p d then "explicit" else "implicit"
    if m ≠ res then s!"MODEL-DIFF compat model={m} impl={res}"
    else s!"ok compat-{want}-{if p.toBytes.1 % 2 = 0 then "evenlen" else "oddlen"}-{match d with | .exact _ => "exact" | _ => dict}"
  | _, _ => "BAD-LINE"

def cfgOf (mode : VMode) : Cfg :=
  { odd := .accept, mode := mode, isXs := stdIsXs, parseOk := stdParseOk }

def handleDs (enc declared mode cut bytes : String) (rest : List String) : String :=
  match syntaxOf enc, syntaxOf declared, modeOf mode, unhex bytes, splitBar rest with
  | some ts, some dts, some vm, some bs, [[], flex, fixed] =>
    let first := skipStray 64 bs
    let firstTag := decodeTag false first
    let inFffe : Bool := match firstTag with | some (t, _) => t.group == 0xFFFE | none => false
    -- class of the first element
    let code : Option (Nat × Nat) := match firstTag with
      | some (_, a :: b :: _) => some (a, b)
      | _ => none
    let codeVr : Option VR := match code with | some (a, b) => VR.fromBinary a b | none => none
    let dv : Option VVr := match firstTag with | some (t, _) => stdDictV t | none => none
    let firstClass : String :=
      if first.length < 8 then "short"
      else if inFffe then "fffe"
      else match codeVr, dv with
        | none, _ => "nocode"
        | some _, none => "code-unknowntag"
        | some vr, some vvr => if vrCompat vr vvr then "code-compat" else "code-incompat"
    -- scope of the statement
    let scope : String :=
      if ts = .explicitBE then "be"
      else if inFffe then "out-fffe"
      else if ts = .explicitLE then (if firstClass == "nocode" then "out-badvr" else "in")
      else if !unambiguous stdDictV first then "out-ambiguous"
      -- an incomplete stream may end inside a pixel data sequence, where the implicit decoder's error
      -- kind differs (see `normOut`): not a data set, outside the statement
      else if cut == "1" then "out-cut" else "in"
    -- 1. the property on the implementation's two outputs
    if (scope == "in" || scope == "be") && flex ≠ fixed then
      let cls := if ts = .explicitLE then
          (if firstClass == "code-incompat" then "explicit-first-vr-disagrees-dict" else "flex-ne-explicit")
        else if ts = .implicitLE then "flex-ne-implicit" else "flex-changes-big-endian"
      s!"PROP-FAIL class={cls} first={firstClass} {((firstDiff 0 fixed flex).replace "model=" "fixed=").replace "impl=" "flexible="}"
    else
    -- 2. model against implementation, both runs
    let cfg := cfgOf vm
    let mFlex := (readWithOptions cfg stdDictV dts true cap bs).map fun r => r.out.word
    let mFixed := (readWithOptions cfg stdDictV ts false cap bs).map fun r => r.out.word
    -- the reader model does not validate the *text* of DA/TM/DT values read in interpreted mode (C12's subject):
    -- where it predicts a date/time value and the implementation stops with a value error — in BOTH runs, so that
    -- the property holds on this input — the case is accepted under a signature of its own
    let temporalRejected (m impl : List String) : Bool :=
      match impl.getLast? with
      | some "E:readValue" =>
        let i := impl.length - 1
        wordsEq (m.take i) (impl.take i) &&
          (match (m.drop i).head? with
           | some w => w.startsWith "V:x:date" || w.startsWith "V:x:time"
           | none => false)
      | _ => false
    if flex = fixed && temporalRejected mFlex flex && temporalRejected mFixed fixed then
      s!"ok {enc}-{scope}-{firstClass}-same-err-m{mode}-temporal-text-rejected"
    else
    if !wordsEq mFlex flex then s!"MODEL-DIFF flex {firstDiff 0 mFlex flex}"
    else if !wordsEq mFixed fixed then s!"MODEL-DIFF fixed {firstDiff 0 mFixed fixed}"
    else
      let shape := (if flex.any (·.startsWith "S:") then "sq" else "") ++ (if flex.any (· == "P") then "px" else "")
      let ending := match flex.getLast? with | some "D" => "end" | some w => (if w.startsWith "E:" then "err" else "cap") | none => "none"
      let agree := if flex = fixed then "same" else "differ"
      let triv := if bs.isEmpty then "trivial-" else ""
      s!"ok {triv}{enc}-{scope}-{firstClass}-{agree}-{ending}-m{mode}-{if shape.isEmpty then "flat" else shape}"
  | _, _, _, _, _ => "BAD-LINE"

def handle (line : String) : String :=
  match tokens line with
  | "compat" :: p :: d :: res => handleCompat p d res
  | "ds" :: enc :: declared :: mode :: cut :: bytes :: rest => handleDs enc declared mode cut bytes rest
  | _ => "BAD-LINE"

def main : IO Unit := Driver.run handle
