import DicomModel.Model.Util
import DicomModel.Model.Release
import Driver.Loop
open Dicom Dicom.Release

structure Ev where
  peer : Peer
  act : Act
  res : String

def parsePeer : String → Option Peer
  | "R" => some .R | "A" => some .A | _ => none

def parseAct : String → Option Act
  | "sendData" => some .sendData | "sendOther" => some .sendOther | "recv" => some .recv
  | "release" => some .release | "reply" => some .reply | "abort" => some .abort
  | "close" => some .close | _ => none

def parseEv (t : String) : Option Ev :=
  match t.splitOn "/" with
  | [p, a, r] => do some ⟨← parsePeer p, ← parseAct a, r⟩
  | _ => none

def kindOf : String → Option Msg
  | "pd" => some .data | "rlrq" => some .releaseRQ | "rlrp" => some .releaseRP
  | "ab" => some .abort | "other" => some .other | _ => none

def showMsg : Msg → String
  | .data => "pd" | .releaseRQ => "rlrq" | .releaseRP => "rlrp" | .abort => "ab" | .other => "other"

def showSt : PState → String
  | .established => "est" | .replying => "replying" | .replied => "replied" | .awaitingRP => "awaiting"
  | .released => "released" | .failed => "failed" | .aborted => "aborted" | .peerAborted => "peerAborted"
  | .repliedClosed => "repliedClosed" | .closed => "closed"

def stOf (s : Sys) : Peer → PState
  | .R => s.r
  | .A => s.a

/-- the result the model predicts for an event in state `s` -/
def expected (s : Sys) (e : Ev) : String :=
  match e.act with
  | .release => "-"
  | .recv =>
    match stOf s e.peer, delivered s e.peer with
    | .awaitingRP, some .releaseRP => "ok"
    | .awaitingRP, some _ => "err:unexpected-pdu"
    | _, some m => showMsg m
    | _, none => "err:closed"
  | _ => "ok"

/-- replay the schedule through `step`; `Except` carries the first disagreement -/
def replay (s : Sys) (k : Nat) : List Ev → Except String Sys
  | [] => .ok s
  | e :: rest =>
    match step s e.peer e.act with
    | none => .error s!"event {k} ({repr e.peer} {repr e.act}) is not enabled in the model (peer state {showSt (stOf s e.peer)})"
    | some s' =>
      if expected s e ≠ e.res then
        .error s!"event {k} ({repr e.peer} {repr e.act}) result model={expected s e} impl={e.res}"
      else replay s' (k + 1) rest

/-- nothing may follow a release request, a release reply or an abort in one direction -/
def terminalNotLast : List String → Bool
  | [] => false
  | [_] => false
  | x :: rest => (x == "rlrq" || x == "rlrp" || x == "ab") || terminalNotLast rest

/-- the statement, evaluated on the reported events and the recorded wire only -/
def oracle (evs : List Ev) (wRA wAR : List String) : Option (String × String) := Id.run do
  if evs.any (fun e => e.res == "hang" || e.res == "err:timeout") then
    return some ("connection-not-closed", "an action blocked: the other side did not close its connection")
  if terminalNotLast wRA then return some ("pdu-after-release", s!"requestor→acceptor: {wRA}")
  if terminalNotLast wAR then return some ("pdu-after-release", s!"acceptor→requestor: {wAR}")
  -- walk through the events counting what each side has taken out of its channel
  let mut kR := 0
  let mut kA := 0
  let mut waitR := false
  let mut waitA := false
  for e in evs do
    let isR := e.peer == .R
    let inbox := if isR then wAR else wRA
    let k := if isR then kR else kA
    let waiting := if isR then waitR else waitA
    match e.act with
    | .release => if isR then waitR := true else waitA := true
    | .recv =>
      let next := inbox[k]?
      if waiting then
        -- this is `release()` returning
        if e.res == "ok" && next != some "rlrp" then
          return some ("release-without-reply", s!"release() of {repr e.peer} returned Ok but the PDU it read was {next}")
        if next != some "rlrp" && !e.res.startsWith "err" then
          return some ("release-error-missed", s!"release() of {repr e.peer} read {next} and returned {e.res}")
      else if e.res == "rlrq" then
        -- must be answered: a reply action follows and the release reply is the last PDU sent
        let out := if isR then wRA else wAR
        if !(evs.any fun f => f.peer == e.peer && f.act == .reply && f.res == "ok") || out.getLast? != some "rlrp" then
          return some ("release-not-answered", s!"{repr e.peer} took a release request; it sent {out}")
      if next.isSome then
        if isR then kR := kR + 1 else kA := kA + 1
    | _ => pure ()
  return none

/-- the acceptor of an `scp` line is the real storescp tool: it is not scripted, its loop simply
runs as far as it can (take the next PDU, answer a release request, leave) -/
def runLoopA (s : Sys) : Nat → Sys
  | 0 => s
  | fuel + 1 =>
    let act : Option Act := match s.a with
      | .established => if !s.ra.isEmpty || s.r.sockClosed then some .recv else none
      | .replying => some .reply
      | .replied => some .close
      | _ => none
    match act with
    | none => s
    | some a => match step s .A a with
      | some s' => runLoopA s' fuel
      | none => s

def replayScp (s : Sys) (k : Nat) : List Ev → Except String Sys
  | [] => .ok (runLoopA s (s.ra.length + 4))
  | e :: rest =>
    let s := runLoopA s (s.ra.length + 4)
    match step s e.peer e.act with
    | none => .error s!"event {k} ({repr e.peer} {repr e.act}) is not enabled in the model (peer state {showSt (stOf s e.peer)})"
    | some s' =>
      if expected s e ≠ e.res then
        .error s!"event {k} ({repr e.peer} {repr e.act}) result model={expected s e} impl={e.res}"
      else replayScp s' (k + 1) rest

def splitSecs (more : List String) : List (List String) :=
  let rec go (cur : List String) (acc : List (List String)) : List String → List (List String)
    | [] => (cur.reverse :: acc).reverse
    | "|" :: r => go [] (cur.reverse :: acc) r
    | t :: r => go (t :: cur) acc r
  go [] [] more

def handleScp (flavour : String) (rest : List String) : String :=
  match rest with
  | nT :: more =>
    match nT.toNat?, splitSecs more with
    | some n, [evT, raT, arT] =>
      match evT.mapM parseEv with
      | some evs =>
        if evs.length ≠ n ∨ raT[1]? ≠ some "rq" ∨ arT[1]? ≠ some "ac" then "BAD-LINE" else
        let wRA := raT.drop 2
        let wAR := arT.drop 2
        match oracle evs wRA wAR with
        | some (c, d) => s!"PROP-FAIL class={c} {d}"
        | none =>
          -- the tool must answer a release request with a release reply
          if wRA.contains "rlrq" && wAR.getLast? != some "rlrp" then
            s!"PROP-FAIL class=release-not-answered storescp ({flavour}) got a release request; it sent {wAR}"
          else
          match replayScp init 0 evs with
          | .error d => s!"MODEL-DIFF not a behaviour of the model: {d}"
          | .ok s =>
            if s.tRA.map showMsg ≠ wRA then s!"MODEL-DIFF wire requestor→storescp model={s.tRA.map showMsg} recorded={wRA}"
            else if s.tAR.map showMsg ≠ wAR then s!"MODEL-DIFF wire storescp→requestor model={s.tAR.map showMsg} recorded={wAR}"
            else s!"ok scp-{flavour}-{showSt s.r}-{showSt s.a}-{if wRA.contains "pd" then "data" else "nodata"}{if wRA.contains "other" then "-other" else ""}"
      | none => "BAD-LINE"
    | _, _ => "BAD-LINE"
  | [] => "BAD-LINE"

def handle (line : String) : String :=
  match tokens line with
  | ["skip", why] => s!"ok trivial-skip-{why}"
  | "scp" :: flavour :: rest => handleScp flavour rest
  | "sched" :: rest =>
    match Dicom.tokens (" ".intercalate rest) with
    | nT :: more =>
      let secs : List (List String) :=
        let rec go (cur : List String) (acc : List (List String)) : List String → List (List String)
          | [] => (cur.reverse :: acc).reverse
          | "|" :: r => go [] (cur.reverse :: acc) r
          | t :: r => go (t :: cur) acc r
        go [] [] more
      match nT.toNat?, secs with
      | some n, [evT, raT, arT] =>
        match evT.mapM parseEv with
        | some evs =>
          if evs.length ≠ n then "BAD-LINE" else
          let wRA := (raT.drop 2)   -- count, then the A-ASSOCIATE-RQ
          let wAR := (arT.drop 2)   -- count, then the A-ASSOCIATE-AC
          if raT[1]? ≠ some "rq" ∨ arT[1]? ≠ some "ac" then "BAD-LINE" else
          match oracle evs wRA wAR with
          | some (c, d) => s!"PROP-FAIL class={c} {d}"
          | none =>
            match replay init 0 evs with
            | .error d => s!"MODEL-DIFF not a behaviour of the model: {d}"
            | .ok s =>
              if s.tRA.map showMsg ≠ wRA then s!"MODEL-DIFF wire requestor→acceptor model={s.tRA.map showMsg} recorded={wRA}"
              else if s.tAR.map showMsg ≠ wAR then s!"MODEL-DIFF wire acceptor→requestor model={s.tAR.map showMsg} recorded={wAR}"
              else
                let flight := if s.ra.isEmpty && s.ar.isEmpty then "" else "-inflight"
                let sig := s!"{showSt s.r}-{showSt s.a}{flight}-{if n ≤ 3 then "short" else if n ≤ 8 then "mid" else "long"}"
                if n == 0 then s!"ok trivial-{sig}" else s!"ok {sig}"
        | none => "BAD-LINE"
      | _, _ => "BAD-LINE"
    | [] => "BAD-LINE"
  | _ => "BAD-LINE"

def main : IO Unit := Driver.run handle
