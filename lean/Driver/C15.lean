import DicomModel.Model.Util
import DicomModel.Model.Dict
import Driver.Loop
/-!
Driver for C15. Two modes (argv[1]):

* `gen`   — the Lean side produces the queries from the generated table (every entry and its
  neighbours, every expansion of every range entry, private-creator and group-length stripes,
  random tags, every keyword and mutations, every UID); in the thorough tier it also evaluates the
  model on **all 2^32 tags** (per group, with the registry restricted to the rows a query of that
  group can touch — `Props/C15.sweep_registry_correct`) and emits the answers run-length encoded.
* `check` — per answered line: first the property's oracle (`specLookup` = the statement's precedence
  order as linear scans of the table; keyword → entry with that keyword and the same tag; UID/keyword
  → the same SOP class entry) on the implementation's answer, then the model (`indexedTag`, `byName`,
  `byUid`, `byKeyword` over the registries built as the code builds them).
-/
open Dicom Dicom.Dict

/-- text-as-Nat → protocol hex token -/
def natHex (n : Nat) : String :=
  if n = 0 then "-" else
    let d := Nat.toDigits 16 n
    String.ofList (if d.length % 2 = 1 then '0' :: d else d)

def hexNat (s : String) : Option Nat := (unhex s).map fun bs => bs.foldl (fun a b => a * 256 + b) 0

def renderAns : Ans → List String
  | .none => ["none"]
  | .entry r => ["e", toString r.kind, toString r.group, toString r.elem, natHex r.alias, toString r.vr]
  | .privateCreator => ["e", "pc", "0", "0", natHex pcAlias, toString vrLO]
  | .groupLength => ["e", "gl", "0", "0", natHex glAlias, toString vrUL]

def renderUid : Option UidRow → List String
  | none => ["none"]
  | some u => ["u", natHex u.uid, natHex u.name, natHex u.alias, toString u.type, toString u.retired]

def sp (l : List String) : String := " ".intercalate l

/-! ### check mode -/

/-- group-local registry: gives the same answers as the full one for tags of group `g` -/
def regOf (g : Nat) : Registry := initDictionary (Gen.entries.filter (relevant g))

def elemClass (e : Nat) : String :=
  if e = 0 then "e0" else if e < 0x10 then "elow" else if e ≤ 0xFF then "e10-ff" else "ehigh"

def tagSig (g e : Nat) (spec : Ans) : String :=
  let par := if g % 2 = 1 then "odd" else "even"
  match spec with
  | .entry r =>
    let shadow := (Gen.entries.find? (fun x => x.kind != 0 && x.covers g e)).isSome
    if r.kind = 0 then (if shadow then "exact-over-range" else "exact") ++ "-" ++ par ++ "-" ++ elemClass e
    else (if r.kind = 1 then "ggxx" else "eexx") ++ (if r.group = g ∧ r.elem = e then "-inner" else "-expanded")
      ++ "-" ++ par ++ "-" ++ elemClass e
  | .privateCreator => "private-creator"
  | .groupLength => "group-length-" ++ par
  | .none => "none-" ++ par ++ "-" ++ elemClass e

def checkTag (g e : Nat) (ans : List String) : String :=
  if g ≥ 65536 ∨ e ≥ 65536 then "BAD-LINE" else
  let spec := specLookup Gen.entries g e
  if renderAns spec ≠ ans then
    s!"PROP-FAIL class=by-tag-precedence tag=({g},{e}) want={sp (renderAns spec)} impl={sp ans}"
  else
    let m := indexedTag (regOf g) g e
    if renderAns m ≠ ans then s!"MODEL-DIFF by_tag tag=({g},{e}) model={sp (renderAns m)} impl={sp ans}"
    else "ok tag-" ++ tagSig g e spec

def checkName (a : Nat) (ans : List String) : String :=
  let rows := Gen.entries.filter (fun r => r.alias == a)
  match rows with
  | r :: rest =>
    -- the statement: an entry with that keyword and the same tag — for *every* entry carrying it
    let okFor (x : Row) : Bool := match ans with
      | ["e", k, g, e, al, _] => al == natHex a && k == toString x.kind && g == toString x.group && e == toString x.elem
      | _ => false
    if !(okFor r) then s!"PROP-FAIL class=keyword-lookup keyword={natHex a} want={sp (renderAns (.entry r))} impl={sp ans}"
    else if !(rest.all okFor) then s!"PROP-FAIL class=keyword-ambiguous keyword={natHex a} impl={sp ans}"
    else
      let m := byName registry a
      if renderAns m ≠ ans then s!"MODEL-DIFF by_name model={sp (renderAns m)} impl={sp ans}"
      else "ok name-entry-kind" ++ toString r.kind
  | [] =>
    let m := byName registry a
    if renderAns m ≠ ans then s!"MODEL-DIFF by_name keyword={natHex a} model={sp (renderAns m)} impl={sp ans}"
    else if a = 0 then "ok trivial-name-empty"
    else "ok name-" ++ (if m = .groupLength then "generic-group-length" else "unknown")

def checkUid (byU : Bool) (x : Nat) (ans : List String) : String :=
  let rows := Gen.sopClasses.filter (fun r => if byU then r.uid == x else r.alias == x)
  let what := if byU then "uid" else "kw"
  match rows with
  | r :: rest =>
    if renderUid (some r) ≠ ans ∨ !rest.isEmpty then
      s!"PROP-FAIL class=sop-class-lookup {what}={natHex x} want={sp (renderUid (some r))} impl={sp ans}"
    else
      -- the same entry is reachable through the other key
      let other := if byU then byKeyword uidRegistry r.alias else byUid uidRegistry r.uid
      let m := if byU then byUid uidRegistry x else byKeyword uidRegistry x
      if other ≠ m then s!"PROP-FAIL class=sop-class-uid-keyword-disagree {what}={natHex x}"
      else if renderUid m ≠ ans then s!"MODEL-DIFF sop {what} model={sp (renderUid m)} impl={sp ans}"
      else s!"ok sop-{what}-" ++ (if r.retired = 1 then "retired" else "current")
  | [] =>
    let m := if byU then byUid uidRegistry x else byKeyword uidRegistry x
    if renderUid m ≠ ans then s!"MODEL-DIFF sop {what}={natHex x} model={sp (renderUid m)} impl={sp ans}"
    else if x = 0 then s!"ok trivial-sop-{what}-empty" else s!"ok sop-{what}-unknown"

def handle (line : String) : String :=
  match tokens line with
  | "tag" :: g :: e :: ans =>
    match g.toNat?, e.toNat? with
    | some g, some e => if ans.isEmpty then "BAD-LINE" else checkTag g e ans
    | _, _ => "BAD-LINE"
  | "name" :: h :: ans =>
    match hexNat h with
    | some a => if ans.isEmpty then "BAD-LINE" else checkName a ans
    | none => "BAD-LINE"
  | "uid" :: h :: ans =>
    match hexNat h with
    | some a => if ans.isEmpty then "BAD-LINE" else checkUid true a ans
    | none => "BAD-LINE"
  | "kw" :: h :: ans =>
    match hexNat h with
    | some a => if ans.isEmpty then "BAD-LINE" else checkUid false a ans
    | none => "BAD-LINE"
  | ["sweep", g, n, "ok"] =>
    match g.toNat?, n.toNat? with
    | some g, some n =>
      let cls := if n ≤ 2 then "plain" else if n ≤ 4 then "private" else if n ≤ 40 then "sparse" else "dense"
      s!"ok sweep-{cls}-{if g % 2 = 1 then "odd" else "even"}"
    | _, _ => "BAD-LINE"
  | "sweep" :: g :: _ :: "bad" :: _ :: "at" :: e :: rest =>
    -- first disagreement of the whole-group sweep: judged like a single `tag` query
    let ans := rest.takeWhile (· ≠ "at")
    match g.toNat?, e.toNat? with
    | some g, some e =>
      let v := checkTag g e ans
      if v.startsWith "ok" then s!"MODEL-DIFF sweep prediction for ({g},{e}) differs from the model's own answer {sp ans}"
      else v
    | _, _ => "BAD-LINE"
  | _ => "BAD-LINE"

/-! ### gen mode -/

def rngNext (s : Nat) : Nat := (s * 6364136223846793005 + 1442695040888963407) % 18446744073709551616
def rngVal (s : Nat) : Nat := s / 4294967296

/-- `n` pseudo-random 32-bit values from a seed -/
def randoms (seed n : Nat) : List Nat := Id.run do
  let mut s := rngNext (seed * 2654435761 + 12345)
  let mut out := []
  for _ in [0:n] do
    s := rngNext s
    out := rngVal s :: out
  return out

def symOf : Ans → String
  | .none => "n"
  | .privateCreator => "p"
  | .groupLength => "l"
  | .entry r => "k" ++ toString r.key

/-- the model's answers for all 65 536 elements of group `g`, run-length encoded -/
def groupRuns (g : Nat) : String := Id.run do
  let reg := regOf g
  let mut out := s!"sweep {g}"
  let mut prev : Option Ans := none
  for e in [0:65536] do
    let a := indexedTag reg g e
    if prev != some a then
      out := out ++ s!" {e}:{symOf a}"
      prev := some a
  return out

def mutateNames (a : Nat) : List Nat :=
  -- drop the last character, flip the case bit of the first character, append 's'
  let d := Nat.toDigits 256 a
  let first := a / (256 ^ (d.length - 1))
  [a / 256, a - first * 256 ^ (d.length - 1) + (first ^^^ 0x20) * 256 ^ (d.length - 1), a * 256 + 0x73]

def main (args : List String) : IO Unit := do
  let out ← IO.getStdout
  match args with
  | ["gen"] =>
    let tier := (← IO.getEnv "VERIF_TIER").getD "quick"
    let seed := ((← IO.getEnv "VERIF_SEED").getD "1").toNat?.getD 1
    let thorough := tier == "thorough"
    let idx ← IO.mkRef 0
    let emit (s : String) : IO Unit := do
      let i ← idx.get
      out.putStrLn s!"#{i} {s}"
      idx.set (i + 1)
    let tag (g e : Nat) : IO Unit := if g < 65536 ∧ e < 65536 then emit s!"tag {g} {e}" else pure ()
    let es := Gen.entries
    -- A. every entry under its own (inner) tag, and the four neighbours
    for r in es do
      tag r.group r.elem
      tag r.group (r.elem + 1)
      if r.elem > 0 then tag r.group (r.elem - 1)
      tag (r.group + 1) r.elem
      if r.group > 0 then tag (r.group - 1) r.elem
    -- B. every expansion of every range entry (256 each), plus the tag just outside the range
    for r in es do
      if r.kind = 1 then
        for i in [0:256] do tag (r.group / 256 * 256 + i) r.elem
        tag (r.group / 256 * 256 + 256) r.elem
        tag (r.group / 256 * 256 + 255) (r.elem + 1)
      if r.kind = 2 then
        for i in [0:256] do tag r.group (r.elem / 256 * 256 + i)
        tag r.group (r.elem / 256 * 256 + 256)
        tag (r.group + 1) (r.elem / 256 * 256 + 255)
    -- C. private creator stripes: elements 000E–0101 of odd and even groups
    let rs := randoms seed 64
    let oddGs := [1, 3, 5, 7, 9, 0xB, 0xFF, 0x101, 0x21, 0x5001, 0x50FF, 0x6001, 0x60FF, 0x7F01, 0x7FE1, 0xFFFF]
      ++ (rs.take 48).map (fun x => x % 65536 / 2 * 2 + 1)
    let evenGs := [0, 2, 8, 0x10, 0x20, 0x5000, 0x6000, 0x7F00, 0x7FE0, 0xFFFE] ++ (rs.drop 48).map (fun x => x % 65536 / 2 * 2)
    for g in oddGs ++ evenGs do
      for e in [0x0E:0x102] do tag g e
    -- D. group length: (g,0000)
    if thorough then
      for g in [0:65536] do tag g 0
    else
      for g in [0:256] do tag g 0
      for p in [0x50, 0x60, 0x7F] do
        for i in [0:256] do tag (p * 256 + i) 0
      for x in randoms (seed + 1) 3072 do tag (x % 65536) 0
    -- E. random tags: uniform, and near the table (a row's group with any element and vice versa)
    let nRand := if thorough then 1000000 else 20000
    for x in randoms (seed + 2) nRand do tag (x / 65536) (x % 65536)
    let arr := es.toArray
    for x in randoms (seed + 3) (nRand / 2) do
      let r := arr[x % arr.size]!
      let y := rngVal (rngNext (x + 7))
      if x % 2 = 0 then tag r.group (y % 65536) else tag (y % 65536) r.elem
    -- F. keywords: all, mutations, the two static entries, the empty string
    for r in es do
      emit s!"name {natHex r.alias}"
    for r in es do
      for m in mutateNames r.alias do emit s!"name {natHex m}"
    emit s!"name {natHex glAlias}"
    emit s!"name {natHex pcAlias}"
    emit "name -"
    -- G. SOP class dictionary: every UID constant of uids.rs (SOP class or not), every keyword, mutations
    for c in Gen.uidConsts do emit s!"uid {natHex c.value}"
    for u in Gen.sopClasses do
      emit s!"uid {natHex u.uid}"
      emit s!"kw {natHex u.alias}"
      emit s!"uid {natHex (u.uid * 65536 + 0x2e31)}"
      emit s!"kw {natHex (u.alias / 256)}"
      emit s!"uid {natHex u.alias}"
      emit s!"kw {natHex u.uid}"
    emit "uid -"
    emit "kw -"
    -- H. thorough: the model on all 2^32 tags, one line per group
    if thorough then
      for r in es do
        out.putStrLn s!"#R row {r.key} {r.kind} {r.group} {r.elem} {natHex r.alias} {r.vr}"
      let blocks := (List.range 512).map fun b =>
        Task.spawn fun _ => (List.range 128).map fun j => groupRuns (b * 128 + j)
      for t in blocks do
        for l in t.get do emit l
    out.flush
  | _ => Driver.run handle
