#!/bin/sh
# Build the framework from files on disk only (offline): Lean models/theorems/drivers and the Rust harness.
set -e
cd "$(dirname "$0")"
export CARGO_NET_OFFLINE=true
T="${VERIF_TARGET_DIR:-$PWD/.target}"
python3 lib/gen_manifest.py >/dev/null
# regenerate tables from /repo (translators are idempotent)
for t in translators/*.py; do [ -f "$t" ] && python3 "$t"; done
# Lean: everything registered in the lakefile + all property theorem modules
( cd lean && lake build DicomModel.AuditTool $(ls DicomModel/Props/*.lean 2>/dev/null | sed 's#/#.#g; s#\.lean$##') \
    $(ls Driver/C*.lean 2>/dev/null | sed 's#Driver/C#drv_c#; s#\.lean$##') )
# Rust harness (path dependencies on /repo; builds the crates of /repo's working tree)
( cd harness && CARGO_TARGET_DIR="$T" cargo build --release --offline --bins )
python3 lib/prebuild_tools.py
echo setup-ok
