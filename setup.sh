#!/bin/sh
# Build the framework from files on disk only (offline): Lean models/theorems/drivers and the Rust harness.
set -e
cd "$(dirname "$0")"
export CARGO_NET_OFFLINE=true
T="${VERIF_TARGET_DIR:-$PWD/.target}"
python3 lib/gen_manifest.py >/dev/null
# regenerate tables from /repo (translators are idempotent)
for t in translators/*.py; do if [ -f "$t" ]; then python3 "$t" || echo "setup: translator $t failed"; fi; done
# Lean: audit tool (required), then every property's theorems and driver (a module that fails here
# is reported again, precisely, by that property's own check; setup itself goes on)
( cd lean && lake build DicomModel.AuditTool )
( cd lean && for m in $(ls DicomModel/Props/*.lean 2>/dev/null | sed 's#/#.#g; s#\.lean$##'); do lake build "$m" >/dev/null 2>&1 || echo "setup: $m does not build"; done
  for d in $(ls Driver/C*.lean 2>/dev/null | sed 's#Driver/C#drv_c#; s#\.lean$##'); do lake build "$d" >/dev/null 2>&1 || echo "setup: $d does not build"; done )
# Rust harness (path dependencies on /repo; builds the crates of /repo's working tree)
( cd harness && CARGO_TARGET_DIR="$T" cargo build --release --offline --bins --keep-going 2>&1 | tail -3 ) || echo "setup: some harness runners do not build"
python3 lib/prebuild_tools.py || echo 'setup: a tool binary does not build'
echo setup-ok
