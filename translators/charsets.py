#!/usr/bin/env python3
"""C10 translator.
(1) encoding/src/text.rs  ->  lean/DicomModel/Gen/Charsets.lean
    the `CharsetImpl` variants, the `from_code` arms (code string -> variant, source order), `name()`,
    and which `encoding`-crate constant the decode and the encode arm of each variant end up in
    (through the codec types declared with `decl_character_set!` / `DefaultCharacterSetCodec`).
(2) the running crate      ->  lean/DicomModel/Gen/CodePages.lean
    builds harness runner `c10` and runs `c10 dump`: for each of the supported sets the decoding of
    each of the 256 single bytes and every Unicode scalar value the encoder accepts (exhaustive);
    sets whose encodings are all single bytes become search-tree tables (identical dumps are shared).
Honours `--repo` runs (runner.use_alt_repo has copied the harness already). Content-stable."""
import os, re, subprocess, sys

VERIF = os.path.dirname(os.path.dirname(os.path.abspath(__file__)))
REPO = os.environ.get("VERIF_REPO", "/repo")
if os.path.abspath(REPO) != "/repo":
    tag = re.sub(r"[^A-Za-z0-9]+", "-", os.path.abspath(REPO)).strip("-")
    HARNESS = os.path.join(VERIF, ".work", "harness-" + tag)
    TARGET = os.path.join(VERIF, ".target-" + tag)
else:
    HARNESS = os.path.join(VERIF, "harness")
    TARGET = os.environ.get("VERIF_TARGET_DIR", os.path.join(VERIF, ".target"))
GEN = os.path.join(os.environ.get("VERIF_LEAN_DIR") or os.path.join(VERIF, "lean"), "DicomModel", "Gen")


def die(msg):
    sys.exit("charsets.py: " + msg)


def write_if_changed(path, content):
    if os.path.exists(path) and open(path).read() == content:
        return
    os.makedirs(os.path.dirname(path), exist_ok=True)
    open(path, "w").write(content)


def cps(s):
    return "[" + ", ".join(str(ord(c)) for c in s) + "]"


def block_after(src, header_re):
    """text of the brace block that starts at the first `{` after the match of header_re"""
    m = re.search(header_re, src)
    if not m:
        die("cannot find %r in text.rs" % header_re)
    i = src.index("{", m.end() - 1)
    depth = 0
    for j in range(i, len(src)):
        if src[j] == "{":
            depth += 1
        elif src[j] == "}":
            depth -= 1
            if depth == 0:
                return src[i + 1:j]
    die("unbalanced block after %r" % header_re)


def strip_comments(s):
    return re.sub(r"//[^\n]*", "", s)


def part1():
    src = open(os.path.join(REPO, "encoding", "src", "text.rs")).read()
    src = src.split("#[cfg(test)]")[0]
    # variants
    enum = strip_comments(block_after(src, r"enum CharsetImpl\s*\{"))
    variants = re.findall(r"^\s*([A-Z]\w*)\s*,", enum, re.M)
    if len(variants) < 2:
        die("no CharsetImpl variants found")
    # from_code
    impl = block_after(src, r"impl CharsetImpl\s*\{")
    fc = block_after(impl, r"pub fn from_code\(uid: &str\) -> Option<Self>\s*\{")
    m = re.search(r"match\s+(.*?)\s*\{", fc)
    if not m or m.group(1) != "uid.trim_end()":
        die("from_code no longer matches on `uid.trim_end()` (found %r): the model of fromCode must be revised" % (m.group(1) if m else None))
    arms = []
    body = strip_comments(block_after(fc, r"match\s+uid\.trim_end\(\)\s*\{"))
    for am in re.finditer(r'((?:"[^"]*"\s*\|\s*)*"[^"]*")\s*=>\s*Some\((\w+)\)\s*,', body):
        for code in re.findall(r'"([^"]*)"', am.group(1)):
            if am.group(2) not in variants:
                die("from_code arm names unknown variant " + am.group(2))
            arms.append((code, am.group(2)))
    rest = re.sub(r'((?:"[^"]*"\s*\|\s*)*"[^"]*")\s*=>\s*Some\((\w+)\)\s*,', "", body)
    if re.sub(r"\s+", "", rest) != "_=>None,":
        die("from_code has arms the translator does not understand: %r" % rest.strip())
    # name / decode / encode of `impl TextCodec for CharsetImpl`
    tc = block_after(src, r"impl TextCodec for CharsetImpl\s*\{")
    name_body = strip_comments(block_after(tc, r"fn name\(&self\)[^{]*\{"))
    names = dict(re.findall(r'CharsetImpl::(\w+)\s*=>\s*"([^"]*)"', name_body))
    dec_body = strip_comments(block_after(tc, r"fn decode\(&self, text: &\[u8\]\)[^{]*\{"))
    enc_body = strip_comments(block_after(tc, r"fn encode\(&self, text: &str\)[^{]*\{"))
    dec_t = dict(re.findall(r"CharsetImpl::(\w+)\s*=>\s*(\w+)\.decode\(text\)", dec_body))
    enc_t = dict(re.findall(r"CharsetImpl::(\w+)\s*=>\s*(\w+)\.encode\(text\)", enc_body))
    # codec types -> encoding constant
    macro = block_after(src, r"macro_rules! decl_character_set\s*\{")
    if "$val.decode(text, DecoderTrap::Call(decode_text_trap))" not in macro or "$val.encode(text, EncoderTrap::Strict)" not in macro:
        die("decl_character_set! no longer decodes with Call(decode_text_trap) / encodes with Strict")
    types = {}
    for t, term, const in re.findall(r'decl_character_set!\(\s*(\w+)\s*,\s*"([^"]*)"\s*,\s*(\w+)\s*\)', src):
        types[t] = (const, const)
    dflt = block_after(src, r"impl TextCodec for DefaultCharacterSetCodec\s*\{")
    md = re.search(r"(\w+)\s*\.decode\(text, DecoderTrap::Call\(decode_text_trap\)\)", dflt)
    me = re.search(r"(\w+)\s*\.encode\(text, EncoderTrap::Strict\)", dflt)
    if not md or not me:
        die("DefaultCharacterSetCodec: decode/encode binding not recognised")
    types["DefaultCharacterSetCodec"] = (md.group(1), me.group(1))
    trap = re.sub(r"\s+", "", block_after(src, r"fn decode_text_trap\("))
    want = "letc=input[0];leto0=c&7;leto1=(c&56)>>3;leto2=(c&192)>>6;output.write_char('\\\\');output.write_char((o2+b'0')aschar);output.write_char((o1+b'0')aschar);output.write_char((o0+b'0')aschar);true"
    if trap != want:
        die("decode_text_trap changed: the model's `escape` must be revised")
    for v in variants:
        for what, d in (("name", names), ("decode", dec_t), ("encode", enc_t)):
            if v not in d:
                die("variant %s has no %s arm" % (v, what))
        for t in (dec_t[v], enc_t[v]):
            if t not in types:
                die("codec type %s is not declared with decl_character_set!" % t)
    consts = []
    for v in variants:
        for c in (types[dec_t[v]][0], types[enc_t[v]][1]):
            if c not in consts:
                consts.append(c)
    out = ("/-\nGENERATED by translators/charsets.py from encoding/src/text.rs on every ./check C10 — do not edit.\n"
           "`CharsetImpl` variants, the `from_code` arms in source order (matched after `trim_end()`), `name()`,\n"
           "and the `encoding`-crate constant that the decode arm / the encode arm of each variant is bound to.\n-/\n"
           "namespace Dicom.Charset.Gen\n\n")
    out += "inductive Cs where\n" + "".join("  | %s\n" % v for v in variants) + "deriving DecidableEq, Repr\n\n"
    out += "def Cs.all : List Cs := [" + ", ".join("." + v for v in variants) + "]\n\n"
    out += "def Cs.ctorName : Cs → String\n" + "".join('  | .%s => "%s"\n' % (v, v) for v in variants) + "\n"
    out += "/-- the `encoding` crate constants (`encoding::all::*`) -/\ninductive Enc where\n" + "".join("  | %s\n" % c for c in consts) + "deriving DecidableEq, Repr\n\n"
    out += "/-- `from_code`: (code string, variant), source order -/\ndef fromCodeTable : List (List Nat × Cs) := [\n"
    out += ",\n".join("  (%s, .%s) /- %s -/" % (cps(c), v, c) for c, v in arms) + "\n]\n\n"
    out += "/-- `name()` -/\ndef Cs.term : Cs → List Nat\n" + "".join("  | .%s => %s /- %s -/\n" % (v, cps(names[v]), names[v]) for v in variants) + "\n"
    out += "/-- constant behind the `decode` arm -/\ndef Cs.decBinding : Cs → Enc\n" + "".join("  | .%s => .%s\n" % (v, types[dec_t[v]][0]) for v in variants) + "\n"
    out += "/-- constant behind the `encode` arm -/\ndef Cs.encBinding : Cs → Enc\n" + "".join("  | .%s => .%s\n" % (v, types[enc_t[v]][1]) for v in variants) + "\n"
    out += "end Dicom.Charset.Gen\n"
    write_if_changed(os.path.join(GEN, "Charsets.lean"), out)
    return [names[v] for v in variants]


def run(cmd, cwd, env=None):
    e = dict(os.environ); e["CARGO_NET_OFFLINE"] = "true"
    if env: e.update(env)
    r = subprocess.run(cmd, cwd=cwd, env=e, stdout=subprocess.PIPE, stderr=subprocess.PIPE, text=True)
    if r.returncode != 0:
        sys.stdout.write((r.stdout + r.stderr)[-3000:])
        die("command failed: %s (in %s)" % (" ".join(cmd), cwd))
    return r.stdout


def tree(pairs):
    """balanced search tree term over sorted (key, value) pairs"""
    if not pairs:
        return ".leaf"
    m = len(pairs) // 2
    k, v = pairs[m]
    return "(.node %s %d %d %s)" % (tree(pairs[:m]), k, v, tree(pairs[m + 1:]))


def part2(terms):
    run(["cargo", "build", "--release", "--offline", "--bin", "c10"], HARNESS, {"CARGO_TARGET_DIR": TARGET})
    text = run([os.path.join(TARGET, "release", "c10"), "dump"], VERIF)
    enc, dec = {}, {}
    for line in text.split("\n"):
        t = line.split()
        if not t: continue
        term = bytes.fromhex(t[1]).decode()
        if t[0] == "encall":
            if t[2] == "multi":
                enc[term] = None
            else:
                pairs = [(int(x.split(":")[0], 16), int(x.split(":")[1], 16)) for x in t[4:]]
                if len(pairs) != int(t[3]): die("bad encall line for " + term)
                enc[term] = sorted(pairs)
        elif t[0] == "dec1":
            b = int(t[2])
            if t[3] in ("err", "panic"): die("decode of a single byte failed: " + line)
            s = "" if t[3] == "-" else bytes.fromhex(t[3]).decode()
            dec.setdefault(term, {})[b] = [ord(c) for c in s]
        else:
            die("unexpected dump line " + line[:80])
    pages, order, of_term = {}, [], []
    for term in terms:
        if term not in enc or term not in dec or len(dec[term]) != 256:
            die("incomplete dump for " + term)
        if enc[term] is None:
            continue
        dpairs = []
        for b in range(256):
            s = dec[term][b]
            esc = [92, 48 + (b >> 6), 48 + ((b >> 3) & 7), 48 + (b & 7)]
            if len(s) == 1:
                dpairs.append((b, s[0]))
            elif s != esc:
                die("%s: byte %d decodes to %r, neither one char nor the octal escape" % (term, b, s))
        key = (tuple(dpairs), tuple(enc[term]))
        if key not in pages:
            pages[key] = "page%d" % len(pages)
            order.append((key, term))
        of_term.append((term, pages[key]))
    out = ("import DicomModel.Model.CodePage\n"
           "/-\nGENERATED by translators/charsets.py from the RUNNING `encoding` crate (harness runner `c10 dump`) on every\n"
           "./check C10 — do not edit. For every supported set whose encodings are all single bytes: `dec` = all bytes\n"
           "that decode to a character (the others decode to the octal escape), `enc` = every Unicode scalar value\n"
           "that `encode` accepts (exhaustive over U+0000..U+10FFFF) with its byte. Identical dumps share a page.\n-/\n"
           "namespace Dicom.Charset.Gen\nopen Dicom.CodePage\n\n")
    for (dp, ep), term in order:
        name = pages[(dp, ep)]
        users = ", ".join(t for t, p in of_term if p == name)
        out += "/-- %s: %d bytes decode, %d characters encode -/\ndef %s : Page :=\n  ⟨%s,\n   %s⟩\n\n" % (users, len(dp), len(ep), name, tree(list(dp)), tree(list(ep)))
    out += "/-- the single-byte sets, by defined term -/\ndef pageOfTerm : List (List Nat × Page) := [\n"
    out += ",\n".join("  (%s, %s) /- %s -/" % (cps(t), p, t) for t, p in of_term) + "\n]\n\n"
    out += "def pages : List Page := [" + ", ".join(pages[k] for k, _ in order) + "]\n\n"
    out += "/-- sets with multi-byte encodings (not tabulated) -/\ndef multiByteTerms : List (List Nat) := [\n"
    out += ",\n".join("  %s /- %s -/" % (cps(t), t) for t in terms if enc[t] is None) + "\n]\n\nend Dicom.Charset.Gen\n"
    write_if_changed(os.path.join(GEN, "CodePages.lean"), out)


if __name__ == "__main__":
    part2(part1())
