#!/usr/bin/env python3
"""source -> lean/DicomModel/Gen/VrCompat.lean

Extracts `fn vr_compatible_with_virtual(probed: VR, dict_vr: VirtualVr) -> bool` of
$VERIF_REPO/encoding/src/decode/adaptive_le.rs: the `match dict_vr { … }` arms, in source order.
Understood arm patterns:  `VirtualVr::Exact(x)`, `VirtualVr::Xs|Ox|Px|Lt` (also joined by `|`), `_`.
Understood arm bodies:    `probed == x` / `x == probed` (x the variable bound by Exact),
                          `matches!(probed, VR::A | VR::B …)`, `probed == VR::A [|| probed == VR::B …]`,
                          `true`, `false`.
Output: for each of Exact / Xs / Ox / Px / Lt what its first matching arm says
  (`CompatRule.same` = probed VR equals the entry's VR, `CompatRule.among l`, `CompatRule.const b`).
Model/Adaptive.lean (`vrCompat`) evaluates these rules; the C08 runner compares the result with the compiled
function exhaustively (34 x 38). Fails (exit 1) when the code no longer has a shape it understands.
"""
import os, re, sys

REPO = os.environ.get("VERIF_REPO", "/repo")
VERIF = os.path.dirname(os.path.dirname(os.path.abspath(__file__)))
OUT = os.path.join(os.environ.get("VERIF_LEAN_DIR") or os.path.join(VERIF, "lean"), "DicomModel", "Gen", "VrCompat.lean")
SRC = "encoding/src/decode/adaptive_le.rs"
KINDS = ["Exact", "Xs", "Ox", "Px", "Lt"]
VRS = ("AE AS AT CS DA DS DT FL FD IS LO LT OB OD OF OL OV OW PN SH SL SQ SS ST SV TM UC UI UL UN UR US UT UV").split()


def die(msg):
    sys.stderr.write("vr_compat: " + msg + "\n")
    print("vr_compat: " + msg)
    sys.exit(1)


def strip_comments(src):
    src = re.sub(r"/\*.*?\*/", " ", src, flags=re.S)
    return re.sub(r"//[^\n]*", "", src)


def block_at(src, i):
    depth = 0
    for j in range(i, len(src)):
        if src[j] == "{":
            depth += 1
        elif src[j] == "}":
            depth -= 1
            if depth == 0:
                return src[i + 1:j]
    die("unbalanced braces")


def split_arms(body):
    """top-level `pattern => body,` pieces of a match body"""
    arms, depth, cur = [], 0, ""
    for c in body:
        if c in "([{":
            depth += 1
        elif c in ")]}":
            depth -= 1
        if c == "," and depth == 0:
            if cur.strip():
                arms.append(cur.strip())
            cur = ""
        else:
            cur += c
    if cur.strip():
        arms.append(cur.strip())
    return arms


def vr_list(text):
    names = [x.strip() for x in text.split("|")]
    out = []
    for n in names:
        m = re.fullmatch(r"VR::([A-Z]{2})", n)
        if not m or m.group(1) not in VRS:
            die("unknown VR in arm body: %r" % n)
        out.append(m.group(1))
    return out


def parse_body(body, var):
    b = " ".join(body.split())
    if b in ("true", "false"):
        return ("const", b)
    if var and b in ("probed == " + var, var + " == probed"):
        return ("same",)
    m = re.fullmatch(r"matches!\s*\(\s*probed\s*,\s*(.+?)\s*\)", b)
    if m:
        return ("among", vr_list(m.group(1)))
    parts = [p.strip() for p in b.split("||")]
    got = []
    for p in parts:
        m = re.fullmatch(r"probed == (VR::[A-Z]{2})", p) or re.fullmatch(r"(VR::[A-Z]{2}) == probed", p)
        if not m:
            die("arm body not understood: %r" % body)
        got += vr_list(m.group(1))
    return ("among", got)


def main():
    path = os.path.join(REPO, SRC)
    if not os.path.exists(path):
        die("missing " + path)
    src = strip_comments(open(path).read())
    m = re.search(r"\bfn\s+vr_compatible_with_virtual\s*\(\s*(\w+)\s*:\s*VR\s*,\s*(\w+)\s*:\s*VirtualVr\s*\)\s*->\s*bool\s*\{", src)
    if not m:
        die("fn vr_compatible_with_virtual(probed: VR, dict_vr: VirtualVr) -> bool not found")
    if m.group(1) != "probed":
        die("first parameter is no longer called `probed`")
    fbody = block_at(src, m.end() - 1)
    mm = re.fullmatch(r"\s*match\s+" + re.escape(m.group(2)) + r"\s*\{", fbody[:fbody.index("{") + 1]) if "{" in fbody else None
    if not mm:
        die("the function body is not a single `match dict_vr { … }`")
    mbody = block_at(fbody, fbody.index("{"))
    if fbody[fbody.index("{") + len(mbody) + 2:].strip():
        die("code after the match")
    rules = {}
    for arm in split_arms(mbody):
        if "=>" not in arm:
            die("arm without `=>`: %r" % arm)
        pat, body = arm.split("=>", 1)
        pats = [p.strip() for p in pat.split("|")]
        for p in pats:
            var = None
            if p == "_":
                kinds = [k for k in KINDS if k not in rules]
            else:
                me = re.fullmatch(r"VirtualVr::Exact\s*\(\s*(\w+)\s*\)", p)
                mk = re.fullmatch(r"VirtualVr::(Xs|Ox|Px|Lt)", p)
                if me:
                    kinds, var = ["Exact"], me.group(1)
                    if len(pats) > 1:
                        die("Exact(..) joined with other patterns")
                elif mk:
                    kinds = [mk.group(1)]
                else:
                    die("arm pattern not understood: %r" % p)
            rule = parse_body(body, var)
            for k in kinds:
                rules.setdefault(k, rule)   # the first matching arm wins
    missing = [k for k in KINDS if k not in rules]
    if missing:
        die("no arm for " + ", ".join(missing))

    def lean(rule):
        if rule[0] == "const":
            return ".const " + rule[1]
        if rule[0] == "same":
            return ".same"
        return ".among [" + ", ".join("." + v for v in rule[1]) + "]"

    out = "/- GENERATED by translators/vr_compat.py from the dicom-rs working tree — do not edit.\n"
    out += "   `vr_compatible_with_virtual` of encoding/src/decode/adaptive_le.rs: what the first matching arm of\n"
    out += "   `match dict_vr` says for each kind of dictionary VR. -/\n"
    out += "import DicomModel.Model.VR\nnamespace Dicom.Gen\n\n"
    out += "/-- the body of an arm: the probed VR equals the entry's own VR (`probed == vr`), is one of a list\n"
    out += "(`matches!(probed, …)`), or a constant -/\n"
    out += "inductive CompatRule where\n  | same\n  | among (l : List VR)\n  | const (b : Bool)\nderiving Repr\n\n"
    for k in KINDS:
        out += "/-- `VirtualVr::%s%s` -/\ndef compat%s : CompatRule := %s\n\n" % (k, "(vr)" if k == "Exact" else "", k, lean(rules[k]))
    out += "end Dicom.Gen\n"
    if not (os.path.exists(OUT) and open(OUT).read() == out):
        open(OUT, "w").write(out)


main()
