#!/usr/bin/env python3
"""C23/C24 translator: the two `match vr` of dicom-json  ->  lean/DicomModel/Gen/JsonVrTables.lean

* json/src/ser/mod.rs, `Serialize for DicomJson<&InMemElement>`: which wrapper each VR's arm uses
  (`AsStrings` | `AsPersonNames` | `AsNumbers` | `InlineBinary` | `unreachable!`)  -> `serClass`
* json/src/de/mod.rs, `DataElementVisitor::visit_map`: which Rust target type each VR's arm reads
  the `"Value"` array into                                                          -> `deClass`
The Lean model (`Model/Json.lean`) uses these tables; moving a VR to another arm changes the
generated file, and with it the theorems that were proved about the tables.  Content-stable.
Fails (TRANSLATOR-BROKEN) when an arm can no longer be classified or a VR is missing/duplicated."""
import os, re, sys

VERIF = os.path.dirname(os.path.dirname(os.path.abspath(__file__)))
REPO = os.environ.get("VERIF_REPO", "/repo")
OUT = os.path.join(os.environ.get("VERIF_LEAN_DIR") or os.path.join(VERIF, "lean"), "DicomModel", "Gen", "JsonVrTables.lean")
ALL = "AE AS AT CS DA DS DT FL FD IS LO LT OB OD OF OL OV OW PN SH SL SQ SS ST SV TM UC UI UL UN UR US UT UV".split()


def die(msg):
    sys.exit("json_vr_tables.py: " + msg)


def strip_comments(s):
    return re.sub(r"//[^\n]*", "", s)


def block_from(src, start):
    """(text inside the brace block whose `{` is the first one at/after start, index after it)"""
    i = src.index("{", start)
    depth = 0
    for j in range(i, len(src)):
        if src[j] == "{":
            depth += 1
        elif src[j] == "}":
            depth -= 1
            if depth == 0:
                return src[i + 1:j], j + 1
    die("unbalanced braces")


def arms(body):
    """[(vr list, arm text)] of a `match vr { … }` body whose patterns are `VR::A | VR::B …`"""
    out = []
    pos = 0
    pat = re.compile(r"((?:VR::[A-Z]{2}\s*\|?\s*)+)=>")
    while True:
        m = pat.search(body, pos)
        if not m:
            break
        vrs = re.findall(r"VR::([A-Z]{2})", m.group(1))
        rest = body[m.end():].lstrip()
        if rest.startswith("{"):
            text, end = block_from(body, m.end())
            pos = end
        else:
            end = body.index(",", m.end())
            text = body[m.end():end]
            pos = end + 1
        out.append((vrs, text))
    return out


def table(arms_, classify, what):
    t = {}
    for vrs, text in arms_:
        c = classify(text)
        if c is None:
            die("cannot classify the %s arm of %s: %s" % (what, "|".join(vrs), " ".join(text.split())[:160]))
        for v in vrs:
            if v in t:
                die("%s: VR %s appears in two arms" % (what, v))
            t[v] = c
    missing = [v for v in ALL if v not in t]
    if missing:
        die("%s: no arm for %s" % (what, missing))
    return t


def ser_class(text):
    hits = [c for k, c in (("AsStrings::from", "strings"), ("AsPersonNames::from", "person"),
                           ("AsNumbers::from", "numbers"), ("InlineBinary::from", "binary"),
                           ("unreachable!", "sq")) if k in text]
    if len(hits) != 1:
        return None
    if hits[0] in ("strings", "person", "numbers") and '"Value"' not in text:
        return None
    if hits[0] == "binary" and '"InlineBinary"' not in text:
        return None
    return hits[0]


def de_class(text):
    t = " ".join(text.split())
    rules = [
        (r"Vec<DicomJson<InMemDicomObject<D>>>", "sq"),
        (r"Vec<Option<String>>.*unwrap_or_default.*PrimitiveValue::Strs", "text"),
        (r"Vec<i16>.*PrimitiveValue::I16", "i16"),
        (r"Vec<u16>.*PrimitiveValue::U16", "u16"),
        (r"Vec<i32>.*PrimitiveValue::I32", "i32"),
        (r"Vec<u8>.*PrimitiveValue::U8", "u8"),
        (r"NumberOrText<f32>.*to_num.*PrimitiveValue::F32", "f32"),
        (r"NumberOrText<f64>.*to_num.*PrimitiveValue::F64", "f64"),
        (r"NumberOrText<i64>.*to_num.*PrimitiveValue::I64", "i64"),
        (r"NumberOrText<u32>.*to_num.*PrimitiveValue::U32", "u32"),
        (r"NumberOrText<u64>.*to_num.*PrimitiveValue::U64", "u64"),
        (r"NumberOrText<f64>.*to_string.*PrimitiveValue::Strs", "numstr"),
        (r"Vec<DicomJsonPerson>.*to_string.*PrimitiveValue::Strs", "pn"),
        (r"Vec<DicomJson<Tag>>.*PrimitiveValue::Tags", "at"),
        (r"^\s*return Err\(", "un"),
    ]
    hits = [c for r, c in rules if re.search(r, t)]
    return hits[0] if len(hits) == 1 else None


def lean_fn(name, typ, t, order):
    lines = ["def %s : VR → %s" % (name, typ)]
    for c in order:
        vs = [v for v in ALL if t[v] == c]
        if vs:
            lines.append("  | " + " | ".join("." + v for v in vs) + " => ." + c)
    return "\n".join(lines)


def main():
    ser = strip_comments(open(os.path.join(REPO, "json/src/ser/mod.rs")).read())
    m = re.search(r"DicomValue::Primitive\(v\)\s*=>\s*match vr\s*", ser)
    if not m:
        die("cannot find `DicomValue::Primitive(v) => match vr` in ser/mod.rs")
    body, _ = block_from(ser, m.end() - 1)
    st = table(arms(body), ser_class, "serialiser")

    de = strip_comments(open(os.path.join(REPO, "json/src/de/mod.rs")).read())
    m = re.search(r"if let Some\(value\) = value\s*\{", de)
    if not m:
        die("cannot find `if let Some(value) = value {` in de/mod.rs")
    outer, _ = block_from(de, m.end() - 1)
    m2 = re.search(r"match vr\s*", outer)
    if not m2:
        die("cannot find `match vr` in the Value conversion of de/mod.rs")
    body, _ = block_from(outer, m2.end() - 1)
    dt = table(arms(body), de_class, "deserialiser")

    out = """/-
GENERATED by translators/json_vr_tables.py from json/src/ser/mod.rs and json/src/de/mod.rs — do not edit.
The arm of the `match vr` each VR falls into, in the serialiser and in the deserialiser.
-/
import DicomModel.Model.VR
namespace Dicom.Json

/-- the arm of the `match vr` in `Serialize for DicomJson<&InMemElement>`
(`AsStrings` | `AsPersonNames` | `AsNumbers` | `InlineBinary` | `unreachable!`) -/
inductive SerClass where
  | strings | person | numbers | binary | sq
deriving DecidableEq, Repr

%s

/-- the arm of `match vr` in `DataElementVisitor::visit_map` (the Rust type the `"Value"` items
are read into; `un` = the arm that returns an error) -/
inductive DeClass where
  | sq | text | i16 | u16 | i32 | u8 | f32 | f64 | i64 | u32 | u64 | numstr | pn | at | un
deriving DecidableEq, Repr

%s

end Dicom.Json
""" % (lean_fn("serClass", "SerClass", st, ["strings", "person", "numbers", "binary", "sq"]),
       lean_fn("deClass", "DeClass", dt, "sq text i16 u16 i32 u8 f32 f64 i64 u32 u64 numstr pn at un".split()))
    if os.path.exists(OUT) and open(OUT).read() == out:
        return
    os.makedirs(os.path.dirname(OUT), exist_ok=True)
    open(OUT, "w").write(out)


if __name__ == "__main__":
    main()
