#!/usr/bin/env python3
"""source -> lean/DicomModel/Gen/PduCodes.lean

Extracts the numeric codes of the DICOM upper-layer PDU codec from the dicom-rs working tree
($VERIF_REPO, default /repo), separately for the reading and the writing side:

  ul/src/pdu/reader.rs   `match pdu_type` / `match item_type` arms `0xNN => {`: the code of every arm,
                         named by what the arm builds (`Pdu::X`, `PduVariableItem::X`,
                         `UserVariableItem::X`, abstract / transfer syntax sub-items)      -> r*
  ul/src/pdu/writer.rs   the literal of every `write_u8(0xNN)` whose field is a PDU-type / Item-type,
                         named by the `Pdu::X =>` arm, the `write_pdu_variable_*` function and the
                         `UserVariableItem::X` arm it is in; the result/reason, reject and abort
                         `match`es                                                          -> w*
  ul/src/pdu/mod.rs      `PresentationContextResultReason::from`, `AssociationRJResult::from`,
                         `AssociationRJSource::from` (incl. the guarded `Reserved(x)` arms),
                         `AbortRQSource::from`, `UserIdentityType::from` (r*) and `to_u8` (w*)

Every constant is `@[reducible, simp] def … : Nat := …` so that the model (Model/Pdu.lean), which
uses them instead of literals, computes and its proofs see the numbers.
Fails (exit 1) when an expected arm is missing, a name occurs twice, or arms that Rust would try in
order overlap (the model tests them as independent conditions).
"""
import os, re, sys

REPO = os.environ.get("VERIF_REPO", "/repo")
VERIF = os.path.dirname(os.path.dirname(os.path.abspath(__file__)))
OUT = os.path.join(os.environ.get("VERIF_LEAN_DIR") or os.path.join(VERIF, "lean"), "DicomModel", "Gen", "PduCodes.lean")


def die(msg):
    sys.stderr.write("pdu_codes: " + msg + "\n")
    print("pdu_codes: " + msg)
    sys.exit(1)


def strip_comments(src):
    src = re.sub(r"/\*.*?\*/", " ", src, flags=re.S)
    return re.sub(r"//[^\n]*", "", src)


def read(rel):
    p = os.path.join(REPO, rel)
    if not os.path.exists(p):
        die("missing " + p)
    return strip_comments(open(p).read())


def block_at(src, i):
    """text inside the brace block whose `{` is the first one at or after index i; and its end"""
    i = src.index("{", i)
    depth = 0
    for j in range(i, len(src)):
        if src[j] == "{":
            depth += 1
        elif src[j] == "}":
            depth -= 1
            if depth == 0:
                return src[i + 1:j], j + 1
    die("unbalanced braces")


def fn_body(src, name):
    m = re.search(r"\bfn\s+" + re.escape(name) + r"\b", src)
    if not m:
        die("function %s not found" % name)
    return block_at(src, m.end())[0]


def num(s):
    return int(s, 0)


# ---------------------------------------------------------------- reader.rs: hex arms as a tree

def hex_arms(body):
    """[(code, own_text, children)] for the `0xNN => {` arms directly inside `body`
    (own_text = the arm's block without the blocks of its nested hex arms)"""
    out = []
    pos = 0
    pat = re.compile(r"\b(0x[0-9A-Fa-f]+)\s*=>\s*\{")
    while True:
        m = pat.search(body, pos)
        if not m:
            break
        inner, end = block_at(body, m.end() - 1)
        children = hex_arms(inner)
        # the arm's own text: its block with the nested arms' blocks cut out
        own = remove_child_blocks(inner, pat)
        out.append((num(m.group(1)), own, children))
        pos = end
    return out


def remove_child_blocks(inner, pat):
    res = []
    pos = 0
    while True:
        m = pat.search(inner, pos)
        if not m:
            res.append(inner[pos:])
            break
        res.append(inner[pos:m.start()])
        _, end = block_at(inner, m.end() - 1)
        pos = end
    return " ".join(res)


def name_arm(own, patterns, what):
    hits = []
    for rx, fixed in patterns:
        m = re.search(rx, own)
        if m:
            hits.append(fixed if fixed else m.group(1))
    hits = list(dict.fromkeys(hits))
    if len(hits) != 1:
        die("cannot name a %s arm (candidates %r) in: %s" % (what, hits, own[:160].replace("\n", " ")))
    return hits[0]


def put(table, name, value, what):
    if name in table:
        die("%s: name %s occurs twice" % (what, name))
    table[name] = value


def reader_tables():
    src = read("ul/src/pdu/reader.rs")
    pdu = {}
    for code, own, _ in hex_arms(fn_body(src, "read_pdu")):
        put(pdu, name_arm(own, [(r"Ok\(Some\(Pdu::(\w+)", None)], "PDU"), code, "reader PDU types")
    items, sub_prop, sub_res, user = {}, {}, {}, {}
    for code, own, children in hex_arms(fn_body(src, "read_pdu_variable")):
        n = name_arm(own, [(r"Ok\(Some\(PduVariableItem::(\w+)", None)], "variable item")
        put(items, n, code, "reader items")
        sub_pats = [(r"abstract_syntax\s*=\s*Some\(", "AbstractSyntax"),
                    (r"transfer_syntaxes\.push\(", "TransferSyntax"),
                    (r"transfer_syntax\s*=\s*Some\(", "TransferSyntax")]
        if n == "PresentationContextProposed":
            for c, o, _ in children:
                put(sub_prop, name_arm(o, sub_pats, "proposed sub-item"), c, "reader proposed sub-items")
        elif n == "PresentationContextResult":
            for c, o, _ in children:
                put(sub_res, name_arm(o, sub_pats, "result sub-item"), c, "reader result sub-items")
        elif n == "UserVariables":
            for c, o, _ in children:
                put(user, name_arm(o, [(r"UserVariableItem::(\w+)\(", None)], "user variable"), c,
                    "reader user variables")
        elif children:
            die("unexpected nested arms under item %s" % n)
    return pdu, items, sub_prop, sub_res, user


# ---------------------------------------------------------------- writer.rs

W8 = re.compile(r"write_u8\(\s*(0x[0-9A-Fa-f]+|\d+)\s*\)\s*\.context\(\s*WriteFieldSnafu\s*\{\s*field:\s*\"([^\"]*)\"")


def typed_writes(text, field_rx):
    return [num(m.group(1)) for m in W8.finditer(text) if re.search(field_rx, m.group(2))]


def arms_named(body, rx):
    """[(name, block)] for arms `<rx with one group>(…)? => {`"""
    out = []
    for m in re.finditer(rx, body):
        k = body.find("=>", m.end())
        if k < 0:
            continue
        blk, _ = block_at(body, k)
        out.append((m.group(1), blk))
    return out


def writer_tables():
    src = read("ul/src/pdu/writer.rs")
    body = fn_body(src, "write_pdu")
    pdu = {}
    for name, blk in arms_named(body, r"\bPdu::(\w+)\b[^=]*?(?==>)"):
        ws = typed_writes(blk, r"^PDU-type$")
        if name == "Unknown":
            if ws:
                die("Pdu::Unknown is expected to write its own type byte")
            continue
        if len(ws) != 1:
            die("Pdu::%s: expected one literal PDU-type byte, found %r" % (name, ws))
        put(pdu, name, ws[0], "writer PDU types")
    items, sub_prop, sub_res, user = {}, {}, {}, {}
    ws = typed_writes(fn_body(src, "write_pdu_variable_application_context_name"), r"Item-type")
    if len(ws) != 1:
        die("application context: item types %r" % ws)
    items["ApplicationContext"] = ws[0]
    ws = typed_writes(fn_body(src, "write_pdu_variable_presentation_context_proposed"), r"Item-type")
    if len(ws) != 3:
        die("proposed presentation context: item types %r" % ws)
    items["PresentationContextProposed"], sub_prop["AbstractSyntax"], sub_prop["TransferSyntax"] = ws
    ws = typed_writes(fn_body(src, "write_pdu_variable_presentation_context_result"), r"Item-type")
    if len(ws) != 2:
        die("presentation context result: item types %r" % ws)
    items["PresentationContextResult"], sub_res["TransferSyntax"] = ws
    ub = fn_body(src, "write_pdu_variable_user_variables")
    first = typed_writes(ub.split("for user_variable")[0], r"Item-type")
    if len(first) != 1:
        die("user information: item type %r" % first)
    items["UserVariables"] = first[0]
    for name, blk in arms_named(ub, r"\bUserVariableItem::(\w+)\b[^=]*?(?==>)"):
        ws = typed_writes(blk, r"Item-type")
        if name == "Unknown":
            if ws:
                die("UserVariableItem::Unknown is expected to write its own type byte")
            continue
        if len(ws) != 1:
            die("UserVariableItem::%s: item types %r" % (name, ws))
        put(user, name, ws[0], "writer user variables")
    # simple `Enum::Variant => number` matches
    def variant_numbers(text, enum):
        t = {}
        for m in re.finditer(r"\b" + enum + r"::(\w+)\s*=>\s*\{?\s*(0x[0-9A-Fa-f]+|\d+)\b", text):
            put(t, m.group(1), num(m.group(2)), "writer " + enum)
        return t
    pc_reason = variant_numbers(fn_body(src, "write_pdu_variable_presentation_context_result"),
                                "PresentationContextResultReason")
    rj_result = variant_numbers(body, "AssociationRJResult")
    rj = {}
    for src_enum, reason_enum in [("ServiceUser", "AssociationRJServiceUserReason"),
                                  ("ServiceProviderASCE", "AssociationRJServiceProviderASCEReason"),
                                  ("ServiceProviderPresentation", "AssociationRJServiceProviderPresentationReason")]:
        m = re.search(r"AssociationRJSource::" + src_enum + r"\(reason\)\s*=>", body)
        if not m:
            die("writer: AssociationRJSource::%s arm not found" % src_enum)
        blk, _ = block_at(body, m.end())
        s = re.search(r"write_u8\(\s*(0x[0-9A-Fa-f]+|\d+)\s*\)", blk)
        if not s:
            die("writer: source byte of %s" % src_enum)
        reasons = variant_numbers(blk, reason_enum)
        res = re.search(reason_enum + r"::Reserved\(data\)\s*=>\s*\{?\s*\*data", blk)
        rj[src_enum] = (num(s.group(1)), reasons, bool(res))
    abort = {}
    m = re.search(r"let source_word = match source", body)
    if not m:
        die("writer: abort source_word match not found")
    ablk, _ = block_at(body, m.end())
    for mm in re.finditer(r"AbortRQSource::(ServiceUser|Reserved)\s*=>\s*\[([^\]]*)\]", ablk):
        parts = mm.group(2)
        rep = re.fullmatch(r"\s*(0x[0-9A-Fa-f]+|\d+)\s*;\s*2\s*", parts)
        if rep:
            abort[mm.group(1)] = (num(rep.group(1)), num(rep.group(1)))
        else:
            a, b = [num(x.strip()) for x in parts.split(",")]
            abort[mm.group(1)] = (a, b)
    prov = {}
    for mm in re.finditer(r"AbortRQServiceProviderReason::(\w+)\s*=>\s*\[\s*(0x[0-9A-Fa-f]+|\d+)\s*,\s*(0x[0-9A-Fa-f]+|\d+)\s*\]", ablk):
        put(prov, mm.group(1), (num(mm.group(2)), num(mm.group(3))), "writer abort reasons")
    return pdu, items, sub_prop, sub_res, user, pc_reason, rj_result, rj, abort, prov


# ---------------------------------------------------------------- mod.rs `from` functions

def impl_fn(src, typ, fn):
    m = re.search(r"\bimpl\s+" + typ + r"\s*\{", src)
    if not m:
        die("impl %s not found" % typ)
    blk, _ = block_at(src, m.end() - 1)
    return fn_body(blk, fn)


def simple_from(src, typ, variant_prefix):
    t = {}
    for m in re.finditer(r"(\d+)\s*=>\s*(?:Some\(\s*)?(?:" + variant_prefix + r")::(\w+)", impl_fn(src, typ, "from")):
        put(t, m.group(2), int(m.group(1)), typ + "::from")
    return t


def pair_from(src, typ, outer):
    """arms `(s, r) [if guard] => Outer::Variant(Reason::Name[(arg)])` of a `match (source, reason)`;
    returns [(s, r-set or None for `_`, variant, reason name or None, arg)] in source order,
    None-returning arms dropped"""
    body = re.sub(r"\s+", "", impl_fn(src, typ, "from"))
    arms = []
    rx = re.compile(r"\((\d+|_),(\d+|x|_)\)(?:if((?:x==\d+\|\|)*x==\d+))?=>\{?(return(?:None)?;|" + outer +
                    r"::(\w+)(?:\((\w+)::(\w+)(?:\((\w+)\))?,?\))?)")
    for m in rx.finditer(body):
        s, r, guard, rhs, variant, _renum, reason, arg = m.groups()
        if rhs.startswith("return"):
            continue
        if s == "_":
            die("%s::from: a productive arm with a wildcard source" % typ)
        if r == "x":
            if not guard:
                die("%s::from: binding arm without guard" % typ)
            rs = [int(g.split("==")[1]) for g in guard.split("||")]
        elif r == "_":
            rs = None
        else:
            rs = [int(r)]
        arms.append((int(s), rs, variant, reason, arg))
    if not arms:
        die("%s::from: no arms understood" % typ)
    # arms must not overlap (Rust takes the first match; the model tests them independently)
    seen = set()
    for s, rs, *_ in arms:
        keys = [(s, None)] if rs is None else [(s, r) for r in rs]
        for k in keys:
            if k in seen or (k[0], None) in seen or (k[1] is None and any(q[0] == k[0] for q in seen)):
                die("%s::from: overlapping arms at %r" % (typ, k))
            seen.add(k)
    return arms


def emit():
    rpdu, ritems, rsp, rsr, ruser = reader_tables()
    wpdu, witems, wsp, wsr, wuser, wpc, wrjres, wrj, wabort, wprov = writer_tables()
    mod = read("ul/src/pdu/mod.rs")
    rpc = simple_from(mod, "PresentationContextResultReason", "PresentationContextResultReason")
    rrjres = simple_from(mod, "AssociationRJResult", "AssociationRJResult")
    rid = simple_from(mod, "UserIdentityType", "Self")
    wid = {}
    for m in re.finditer(r"Self::(\w+)\s*=>\s*(\d+)", impl_fn(mod, "UserIdentityType", "to_u8")):
        put(wid, m.group(1), int(m.group(2)), "UserIdentityType::to_u8")
    rj_arms = pair_from(mod, "AssociationRJSource", "AssociationRJSource")
    ab_arms = pair_from(mod, "AbortRQSource", "AbortRQSource")

    L = []
    L.append("/- GENERATED by translators/pdu_codes.py from the dicom-rs working tree — do not edit.")
    L.append("   Numeric codes of ul/src/pdu/{reader,writer,mod}.rs; `r…` = as the reader tests them,")
    L.append("   `w…` = as the writer emits them. -/")
    L.append("namespace Dicom.Pdu.Gen")
    L.append("")

    def consts(title, prefix, table, order=None):
        L.append("/-! %s -/" % title)
        keys = order if order else sorted(table, key=lambda k: (table[k], k))
        for k in keys:
            if k not in table:
                die("%s: %s missing" % (title, k))
            L.append("@[reducible, simp] def %s%s : Nat := %d" % (prefix, k, table[k]))
        extra = set(table) - set(keys)
        if extra:
            die("%s: unexpected names %r" % (title, sorted(extra)))
        if prefix.startswith("r") and len(set(table.values())) != len(table):
            # the model tests the reader's codes as independent conditions
            die("%s: two arms test the same code %r" % (title, table))
        L.append("")

    PDUS = ["AssociationRQ", "AssociationAC", "AssociationRJ", "PData", "ReleaseRQ", "ReleaseRP", "AbortRQ"]
    ITEMS = ["ApplicationContext", "PresentationContextProposed", "PresentationContextResult", "UserVariables"]
    USER = ["MaxLength", "ImplementationClassUID", "ScuScpRoleSelectionSubItem", "ImplementationVersionName",
            "SopClassExtendedNegotiationSubItem", "UserIdentityItem"]
    PC = ["Acceptance", "UserRejection", "NoReason", "AbstractSyntaxNotSupported", "TransferSyntaxesNotSupported"]
    IDS = ["Username", "UsernamePassword", "KerberosServiceTicket", "SamlAssertion", "Jwt"]
    consts("reader.rs `read_pdu`: `match pdu_type`", "rPdu_", rpdu, PDUS)
    consts("writer.rs `write_pdu`: PDU-type byte of each `Pdu::` arm", "wPdu_", wpdu, PDUS)
    consts("reader.rs `read_pdu_variable`: `match item_type`", "rItem_", ritems, ITEMS)
    consts("writer.rs `write_pdu_variable_*`: Item-type bytes", "wItem_", witems, ITEMS)
    consts("reader.rs: sub-items of a proposed presentation context", "rSubProposed_", rsp, ["AbstractSyntax", "TransferSyntax"])
    consts("writer.rs: sub-items of a proposed presentation context", "wSubProposed_", wsp, ["AbstractSyntax", "TransferSyntax"])
    consts("reader.rs: sub-items of a presentation context result", "rSubResult_", rsr, ["TransferSyntax"])
    consts("writer.rs: sub-items of a presentation context result", "wSubResult_", wsr, ["TransferSyntax"])
    consts("reader.rs: user information sub-items", "rUser_", ruser, USER)
    consts("writer.rs: user information sub-items", "wUser_", wuser, USER)
    consts("mod.rs `PresentationContextResultReason::from`", "rPcReason_", rpc, PC)
    consts("writer.rs: result/reason byte", "wPcReason_", wpc, PC)
    consts("mod.rs `AssociationRJResult::from`", "rRjResult_", rrjres, ["Permanent", "Transient"])
    consts("writer.rs: reject result byte", "wRjResult_", wrjres, ["Permanent", "Transient"])
    consts("mod.rs `UserIdentityType::from`", "rIdType_", rid, IDS)
    consts("mod.rs `UserIdentityType::to_u8`", "wIdType_", wid, IDS)

    # reject source / reason: reader
    L.append("/-! mod.rs `AssociationRJSource::from`: source code of each variant, reason code of each named")
    L.append("reason, and the reason codes accepted as `Reserved(x)` -/")
    RJ = {"ServiceUser": ["NoReasonGiven", "ApplicationContextNameNotSupported", "CallingAETitleNotRecognized",
                          "CalledAETitleNotRecognized"],
          "ServiceProviderASCE": ["NoReasonGiven", "ProtocolVersionNotSupported"],
          "ServiceProviderPresentation": ["TemporaryCongestion", "LocalLimitExceeded"]}
    for variant, names in RJ.items():
        arms = [a for a in rj_arms if a[2] == variant]
        srcs = sorted(set(a[0] for a in arms))
        if len(srcs) != 1:
            die("AssociationRJSource::%s: source codes %r" % (variant, srcs))
        L.append("@[reducible, simp] def rRj_%s : Nat := %d" % (variant, srcs[0]))
        named = {}
        reserved = []
        for s, rs, _, reason, arg in arms:
            if rs is None:
                die("AssociationRJSource::%s: wildcard reason" % variant)
            if reason == "Reserved":
                for r in rs:
                    if arg not in ("x", str(r)):
                        die("Reserved(%s) for reason %d" % (arg, r))
                reserved += rs
            else:
                if len(rs) != 1:
                    die("named reason %s with several codes" % reason)
                put(named, reason, rs[0], "reject reasons of " + variant)
        if sorted(named) != sorted(names):
            die("AssociationRJSource::%s: reasons %r" % (variant, sorted(named)))
        for n in names:
            L.append("@[reducible, simp] def rRj_%s_%s : Nat := %d" % (variant, n, named[n]))
        if variant != "ServiceProviderASCE":
            L.append("@[reducible, simp] def rRj_%s_Reserved : List Nat := [%s]" %
                     (variant, ", ".join(str(r) for r in sorted(reserved))))
        elif reserved:
            die("ASCE reasons have no Reserved variant")
    if len(set(a[0] for a in rj_arms)) != len(RJ):
        die("AssociationRJSource::from: variants share a source code")
    extra = set(a[2] for a in rj_arms) - set(RJ)
    if extra:
        die("AssociationRJSource::from: unexpected variants %r" % sorted(extra))
    L.append("")
    L.append("/-! writer.rs: reject source byte and reason byte (`Reserved(data)` writes `data`) -/")
    for variant, names in RJ.items():
        if variant not in wrj:
            die("writer: reject source %s" % variant)
        s, reasons, has_res = wrj[variant]
        L.append("@[reducible, simp] def wRj_%s : Nat := %d" % (variant, s))
        if sorted(reasons) != sorted(names):
            die("writer: reasons of %s: %r" % (variant, sorted(reasons)))
        for n in names:
            L.append("@[reducible, simp] def wRj_%s_%s : Nat := %d" % (variant, n, reasons[n]))
        if has_res != (variant != "ServiceProviderASCE"):
            die("writer: Reserved(data) arm of %s" % variant)
    L.append("")
    # abort: reader
    L.append("/-! mod.rs `AbortRQSource::from`: `ServiceUser` and `Reserved` for any reason byte -/")
    AB = ["ReasonNotSpecified", "UnrecognizedPdu", "UnexpectedPdu", "Reserved", "UnrecognizedPduParameter",
          "UnexpectedPduParameter", "InvalidPduParameter"]
    for variant in ["ServiceUser", "Reserved"]:
        arms = [a for a in ab_arms if a[2] == variant]
        if len(arms) != 1 or arms[0][1] is not None or arms[0][3] is not None:
            die("AbortRQSource::%s: expected one arm `(s, _)`" % variant)
        L.append("@[reducible, simp] def rAbort_%s : Nat := %d" % (variant, arms[0][0]))
    arms = [a for a in ab_arms if a[2] == "ServiceProvider"]
    srcs = sorted(set(a[0] for a in arms))
    if len(srcs) != 1:
        die("AbortRQSource::ServiceProvider: source codes %r" % srcs)
    L.append("@[reducible, simp] def rAbort_ServiceProvider : Nat := %d" % srcs[0])
    named = {}
    for s, rs, _, reason, arg in arms:
        if rs is None or len(rs) != 1 or arg:
            die("AbortRQSource::ServiceProvider arm shape")
        put(named, reason, rs[0], "abort reasons")
    if sorted(named) != sorted(AB):
        die("abort reasons %r" % sorted(named))
    for n in AB:
        L.append("@[reducible, simp] def rAbort_ServiceProvider_%s : Nat := %d" % (n, named[n]))
    if set(a[2] for a in ab_arms) - {"ServiceUser", "Reserved", "ServiceProvider"}:
        die("AbortRQSource::from: unexpected variants")
    L.append("")
    L.append("/-! writer.rs: the two bytes `source_word` of an A-ABORT -/")
    for variant in ["ServiceUser", "Reserved"]:
        if variant not in wabort:
            die("writer: abort %s" % variant)
        L.append("@[reducible, simp] def wAbort_%s : Nat × Nat := (%d, %d)" % ((variant,) + wabort[variant]))
    if sorted(wprov) != sorted(AB):
        die("writer: abort provider reasons %r" % sorted(wprov))
    for n in AB:
        L.append("@[reducible, simp] def wAbort_ServiceProvider_%s : Nat × Nat := (%d, %d)" % ((n,) + wprov[n]))
    L.append("")
    L.append("end Dicom.Pdu.Gen")
    content = "\n".join(L) + "\n"
    if not (os.path.exists(OUT) and open(OUT).read() == content):
        os.makedirs(os.path.dirname(OUT), exist_ok=True)
        open(OUT, "w").write(content)


if __name__ == "__main__":
    emit()
