#!/usr/bin/env python3
"""source -> lean/DicomModel/Gen/VrTables.lean

Extracts from the working tree of dicom-rs ($VERIF_REPO, default /repo):
  * core/src/header.rs: the variants of `enum VR`, the arms of `VR::to_string` and of
    `impl FromStr for VR`;
  * encoding/src/encode/explicit_{le,be}.rs  fn encode_element_header,
    encoding/src/decode/explicit_{le,be}.rs  fn decode_header,
    encoding/src/decode/adaptive_le.rs       fn decode_explicit_length:
    the list of VRs whose `match` arm takes the 16-bit length form (the arm whose body reads/writes
    a u16 length and reports 8 bytes), in source order. If the short form is the wildcard arm the
    list is the complement of the VRs named by the other arms.
The model (Model/Header.lean) uses these tables; Props/C03.lean compares them with PS3.5.
The runner additionally compares every table with the compiled crate (exhaustive over VRs / codes).
Fails (exit 1) when the code no longer has a shape it understands.
"""
import os, re, sys

REPO = os.environ.get("VERIF_REPO", "/repo")
VERIF = os.path.dirname(os.path.dirname(os.path.abspath(__file__)))
OUT = os.path.join(os.environ.get("VERIF_LEAN_DIR") or os.path.join(VERIF, "lean"), "DicomModel", "Gen", "VrTables.lean")


def die(msg):
    sys.stderr.write("vr_tables: " + msg + "\n")
    print("vr_tables: " + msg)
    sys.exit(1)


def strip_comments(src):
    src = re.sub(r"/\*.*?\*/", " ", src, flags=re.S)
    return re.sub(r"//[^\n]*", "", src)


def block_at(src, i):
    """src[i] == '{' -> (body, index after the matching '}')"""
    assert src[i] == "{"
    depth = 0
    j = i
    while j < len(src):
        c = src[j]
        if c == '"':
            j += 1
            while src[j] != '"':
                j += 2 if src[j] == "\\" else 1
        elif c == "'" and re.match(r"'(\\.|[^\\'])'", src[j:j + 4]):
            j += len(re.match(r"'(\\.|[^\\'])'", src[j:j + 4]).group(0)) - 1
        elif c == "{":
            depth += 1
        elif c == "}":
            depth -= 1
            if depth == 0:
                return src[i + 1:j], j + 1
        j += 1
    die("unbalanced braces")


def fn_body(src, name, path, nth=0):
    ms = list(re.finditer(r"\bfn\s+" + re.escape(name) + r"\b", src))
    if len(ms) <= nth:
        die("%s: fn %s not found" % (path, name))
    i = src.find("{", ms[nth].end())
    # skip a `where` clause etc.: the first '{' after the signature is the body
    return block_at(src, i)[0]


def match_arms(body, path):
    """arms of the first `match` in body whose patterns are VR alternatives or `_`.
    returns list of (pattern_vrs or None for wildcard, arm_text)"""
    for m in re.finditer(r"\bmatch\b[^{]*\{", body):
        blk, _ = block_at(body, m.end() - 1)
        arms = []
        pos = 0
        pat = re.compile(r"\s*((?:VR::[A-Za-z0-9]+\s*\|\s*)*VR::[A-Za-z0-9]+|_)\s*=>\s*")
        ok = True
        while pos < len(blk) and blk[pos:].strip():
            mm = pat.match(blk, pos)
            if not mm:
                ok = False
                break
            p = mm.group(1)
            vrs = None if p == "_" else re.findall(r"VR::([A-Za-z0-9]+)", p)
            k = mm.end()
            if k < len(blk) and blk[k] == "{":
                text, k = block_at(blk, k)
            else:
                e = blk.find(",", k)
                e = len(blk) if e < 0 else e
                text, k = blk[k:e], e
            while k < len(blk) and blk[k] in ", \n\t\r":
                k += 1
            arms.append((vrs, text))
            pos = k
        if ok and arms and any(v is not None for v, _ in arms):
            return arms
    die("%s: no `match` over VR alternatives found" % path)


def classify(text):
    short = bool(re.search(r"read_u16|write_u16\s*\(\s*&mut\s+buf\[6|as\s+u16", text))
    long_ = bool(re.search(r"read_u32|write_u32", text))
    if short and not long_:
        return "short"
    if long_ and not short:
        return "long"
    return "?"


def short_list(relpath, fname, all_vrs):
    path = os.path.join(REPO, relpath)
    src = strip_comments(open(path).read())
    # the non-test part only
    cut = src.find("#[cfg(test)]")
    if cut >= 0:
        src = src[:cut]
    arms = match_arms(fn_body(src, fname, relpath), relpath)
    kinds = [(vrs, classify(t)) for vrs, t in arms]
    if any(k == "?" for _, k in kinds):
        die("%s: cannot classify an arm of the VR match in %s as 16-bit or 32-bit length form" % (relpath, fname))
    short, named = [], []
    wildcard = None
    for vrs, k in kinds:
        if vrs is None:
            wildcard = k
            break  # arms after a wildcard are unreachable
        for v in vrs:
            if v in named:
                continue  # first arm wins
            named.append(v)
            if k == "short":
                short.append(v)
    if wildcard is None and set(named) != set(all_vrs):
        die("%s: VR match without wildcard does not name all VRs" % relpath)
    if wildcard == "short":
        short += [v for v in all_vrs if v not in named]
    for v in short:
        if v not in all_vrs:
            die("%s: unknown VR %s" % (relpath, v))
    return short


def str_bytes(s):
    return "[" + ", ".join(str(b) for b in s.encode("utf-8")) + "]"


def main():
    hp = "core/src/header.rs"
    hsrc = strip_comments(open(os.path.join(REPO, hp)).read())
    m = re.search(r"pub\s+enum\s+VR\s*\{", hsrc)
    if not m:
        die("enum VR not found")
    enum_body, _ = block_at(hsrc, m.end() - 1)
    all_vrs = re.findall(r"\b([A-Z][A-Za-z0-9]*)\s*,", enum_body)
    if not all_vrs:
        die("enum VR has no variants")
    im = re.search(r"\bimpl\s+VR\s*\{", hsrc)
    impl_body, _ = block_at(hsrc, im.end() - 1)
    ts = fn_body(impl_body, "to_string", hp)
    to_string = re.findall(r"\b(?:VR::)?([A-Z][A-Za-z0-9]*)\s*=>\s*\"((?:[^\"\\]|\\.)*)\"", ts)
    fm = re.search(r"\bimpl\s+FromStr\s+for\s+VR\s*\{", hsrc)
    if not fm:
        die("impl FromStr for VR not found")
    from_body, _ = block_at(hsrc, fm.end() - 1)
    fs = fn_body(from_body, "from_str", hp)
    from_str = re.findall(r"\"((?:[^\"\\]|\\.)*)\"\s*=>\s*Ok\s*\(\s*(?:VR::)?([A-Z][A-Za-z0-9]*)\s*\)", fs)
    if len(to_string) == 0 or len(from_str) == 0:
        die("to_string / from_str tables not recognised")
    for v, s in to_string:
        if "\\" in s:
            die("escape in VR string")
    # how from_binary and to_bytes are built from the two tables (shape check only)
    fb = fn_body(impl_body, "from_binary", hp)
    if not (re.search(r"from_utf8", fb) and re.search(r"from_str", fb)):
        die("VR::from_binary no longer is from_utf8 + from_str")
    tb = fn_body(impl_body, "to_bytes", hp)
    if not (re.search(r"to_string\(\)\s*\.as_bytes\(\)", tb) and re.search(r"\[\s*bytes\[0\]\s*,\s*bytes\[1\]\s*\]", tb)):
        die("VR::to_bytes no longer is the first two bytes of to_string")

    lists = [
        ("encLeShort", "encoding/src/encode/explicit_le.rs", "encode_element_header"),
        ("encBeShort", "encoding/src/encode/explicit_be.rs", "encode_element_header"),
        ("decLeShort", "encoding/src/decode/explicit_le.rs", "decode_header"),
        ("decBeShort", "encoding/src/decode/explicit_be.rs", "decode_header"),
        ("adaptiveShort", "encoding/src/decode/adaptive_le.rs", "decode_explicit_length"),
    ]
    out = []
    out.append("/- GENERATED by translators/vr_tables.py from the dicom-rs working tree — do not edit.")
    out.append("   VR tables of core/src/header.rs and the 16-bit-length VR lists of the explicit VR codecs. -/")
    out.append("import DicomModel.Model.VR")
    out.append("namespace Dicom.Gen")
    out.append("")
    out.append("/-- variants of `enum VR`, declaration order -/")
    out.append("def vrAll : List VR := [" + ", ".join(".%s" % v for v in all_vrs) + "]")
    out.append("")
    out.append("/-- arms of `VR::to_string`: variant ↦ UTF-8 bytes of the string -/")
    out.append("def vrToString : List (VR × List Nat) := [")
    out.append(",\n".join("  (.%s, %s)" % (v, str_bytes(s)) for v, s in to_string))
    out.append("]")
    out.append("")
    out.append("/-- arms of `FromStr for VR`, in source order: UTF-8 bytes of the pattern ↦ variant -/")
    out.append("def vrFromStr : List (List Nat × VR) := [")
    out.append(",\n".join("  (%s, .%s)" % (str_bytes(s), v) for s, v in from_str))
    out.append("]")
    for name, rel, fn in lists:
        sl = short_list(rel, fn, all_vrs)
        out.append("")
        out.append("/-- VRs taking the 16-bit length form in `%s` (`%s`) -/" % (rel, fn))
        out.append("def %s : List VR := [" % name + ", ".join(".%s" % v for v in sl) + "]")
    out.append("")
    out.append("end Dicom.Gen")
    content = "\n".join(out) + "\n"
    if not (os.path.exists(OUT) and open(OUT).read() == content):
        os.makedirs(os.path.dirname(OUT), exist_ok=True)
        open(OUT, "w").write(content)


if __name__ == "__main__":
    main()
