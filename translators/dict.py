#!/usr/bin/env python3
"""translators/dict.py — dictionary-std source tables -> Lean.

  $VERIF_REPO/dictionary-std/src/tags.rs  -> lean/DicomModel/Gen/Dict.lean        (ENTRIES, source order)
                                             lean/DicomModel/Gen/DictConsts.lean  (pub const declarations + doc lines)
  $VERIF_REPO/dictionary-std/src/uids.rs  -> lean/DicomModel/Gen/Uids.lean        (SOP_CLASSES + pub const declarations)

Nothing is sorted, deduplicated or repaired here: the rows are emitted in source order and Lean
proves the invariants (distinct keys, distinct keywords, zero low bytes of range entries, constants =
entries).  Text travels as a `Nat` (big-endian base 256 of the UTF-8 bytes — the number whose hex
digits are the `hexs` token of the line protocol) because string literals do not reduce in the kernel.
Rows are emitted as many small `List` definitions (<= 64 rows) — one big literal takes minutes.
Files are written only when their content changes.  Any line of the tables the regexes do not
account for is an error (exit 1), never skipped.
"""
import os, re, sys

REPO = os.environ.get("VERIF_REPO", "/repo")
VERIF = os.path.dirname(os.path.dirname(os.path.abspath(__file__)))
GEN = os.path.join(os.environ.get("VERIF_LEAN_DIR") or os.path.join(VERIF, "lean"), "DicomModel", "Gen")
CHUNK = 64


def die(msg):
    print("dict.py: " + msg)
    sys.exit(1)


def nat(s):
    b = s.encode("utf-8")
    return "0x" + b.hex() if b else "0"


def write_if_changed(path, content):
    if os.path.exists(path) and open(path).read() == content:
        return
    os.makedirs(os.path.dirname(path), exist_ok=True)
    tmp = path + ".tmp%d" % os.getpid()
    open(tmp, "w").write(content)
    os.replace(tmp, path)


def chunked(name, ty, rows, out):
    """emit rows as name_0 … name_k (<= CHUNK each), nameChunks, name"""
    n = (len(rows) + CHUNK - 1) // CHUNK
    for k in range(n):
        out.append("def %s_%d : List %s := [\n  %s]" % (name, k, ty, ",\n  ".join(rows[k * CHUNK:(k + 1) * CHUNK])))
    out.append("def %sChunks : List (List %s) := [%s]" % (name, ty, ", ".join("%s_%d" % (name, k) for k in range(n))))
    out.append("def %s : List %s := %sChunks.flatten" % (name, ty, name))


def tree(name, keys, out):
    """certificate: a balanced search tree key -> position in `keys` (source order), built from the
    keys sorted here; Lean only evaluates it (no property of it is assumed). Sub-trees of <= 31
    nodes are literals, larger ones separate definitions (keeps elaboration fast)."""
    items = sorted((k, i) for i, k in enumerate(keys))
    counter = [0]

    def lit(lo, hi):
        if lo >= hi:
            return ".leaf"
        mid = (lo + hi) // 2
        return "(.node %s %s %d %s)" % (lit(lo, mid), hexn(items[mid][0]), items[mid][1], lit(mid + 1, hi))

    def build(lo, hi):
        if hi - lo <= 31:
            return lit(lo, hi)
        mid = (lo + hi) // 2
        l, r = build(lo, mid), build(mid + 1, hi)
        nm = "%s_%d" % (name, counter[0])
        counter[0] += 1
        out.append("def %s : IdxTree := .node %s %s %d %s" % (nm, l, hexn(items[mid][0]), items[mid][1], r))
        return nm

    out.append("def %s : IdxTree := %s" % (name, build(0, len(items))))


def hexn(n):
    return "0x%x" % n


def natv(s):
    return int.from_bytes(s.encode("utf-8"), "big")


# ------------------------------------------------------------------ tags.rs
VIRT = {"Xs": 1, "Ox": 2, "Px": 3, "Lt": 4}
KIND = {"Single": 0, "Group100": 1, "Element100": 2}
TAGLIT = r"Tag\(\s*0x([0-9A-Fa-f]{1,4})\s*,\s*0x([0-9A-Fa-f]{1,4})\s*\)"


def parse_range_expr(e):
    """`Group100(Tag(0x6000, 0x0010))` -> (kind, g, e)"""
    m = re.fullmatch(r"(?:TagRange::)?(Single|Group100|Element100)\(\s*" + TAGLIT + r"\s*\)", e.strip())
    if not m:
        return None
    return KIND[m.group(1)], int(m.group(2), 16), int(m.group(3), 16)


def doc_part(p):
    m = re.fullmatch(r"([0-9A-Fa-f]{4})(?:-([0-9A-Fa-f]{4}))?", p)
    if not m:
        return None
    lo = int(m.group(1), 16)
    return lo, int(m.group(2), 16) if m.group(2) else lo


def tags():
    src = open(os.path.join(REPO, "dictionary-std", "src", "tags.rs")).read()
    # --- constants: doc line, optional attributes, `pub const NAME: Tag|TagRange = …;`
    consts = []   # (name, kind, g, e, docAlias, glo, ghi, elo, ehi)   kind 3 = plain `Tag`
    cvalue = {}
    n_const_lines = len(re.findall(r"^\s*pub const \w+\s*:", src, re.M))
    for m in re.finditer(r"^///[ \t]*(.*)\n((?:[ \t]*#\[[^\n]*\]\n)*)[ \t]*pub const (\w+)\s*:\s*(\w+)\s*=\s*(.*?);[ \t]*$", src, re.M):
        doc, _attrs, name, ty, val = m.groups()
        dm = re.match(r"(\S+) \(([^,()\s]+),([^,()\s]+)\)", doc)
        if not dm:
            die("constant %s: doc line not understood: %r" % (name, doc))
        gp, ep = doc_part(dm.group(2)), doc_part(dm.group(3))
        if gp is None or ep is None:
            die("constant %s: doc tag not understood: %r" % (name, doc))
        if ty == "Tag":
            tm = re.fullmatch(TAGLIT, val.strip())
            if not tm:
                die("constant %s: value not understood: %r" % (name, val))
            k, g, e = 3, int(tm.group(1), 16), int(tm.group(2), 16)
        elif ty == "TagRange":
            r = parse_range_expr(val)
            if r is None:
                die("constant %s: value not understood: %r" % (name, val))
            k, g, e = r
        else:
            die("constant %s: unexpected type %s" % (name, ty))
        if name in cvalue:
            die("constant %s declared twice" % name)
        cvalue[name] = (k, g, e)
        consts.append((name, k, g, e, dm.group(1), gp[0], gp[1], ep[0], ep[1]))
    if len(consts) != n_const_lines:
        die("tags.rs: %d `pub const` lines but %d understood" % (n_const_lines, len(consts)))

    # --- ENTRIES
    em = re.search(r"const ENTRIES\s*:\s*&\[E\]\s*=\s*&\[\n(.*?)^\];", src, re.M | re.S)
    if not em:
        die("tags.rs: ENTRIES table not found")
    rows, refs, keys, aliases = [], [], [], []
    for line in em.group(1).split("\n"):
        if not line.strip() or line.strip().startswith("//"):
            continue
        m = re.fullmatch(r"\s*E \{ tag: (.*?), alias: \"([^\"\\]*)\", vr: (.*?) \},?\s*(?://.*)?", line)
        if not m:
            die("tags.rs: ENTRIES line not understood: %r" % line)
        texpr, alias, vexpr = m.groups()
        sm = re.fullmatch(r"Single\((\w+)\)", texpr)
        if sm and sm.group(1) in cvalue:
            k, g, e = cvalue[sm.group(1)]
            if k != 3:
                die("entry %s: Single(%s) of a non-Tag constant" % (alias, sm.group(1)))
            k, ref, wrapped = 0, sm.group(1), 1
        elif re.fullmatch(r"\w+", texpr) and texpr in cvalue:
            k, g, e = cvalue[texpr]
            if k == 3:
                die("entry %s: bare Tag constant %s used as a range" % (alias, texpr))
            ref, wrapped = texpr, 0
        else:
            r = parse_range_expr(texpr)
            if r is None:
                die("entry %s: tag expression not understood: %r" % (alias, texpr))
            k, g, e = r
            ref, wrapped = "", 0
        vm = re.fullmatch(r"Exact\(([A-Z]{2})\)", vexpr)
        if vm:
            vr = ord(vm.group(1)[0]) * 256 + ord(vm.group(1)[1])
        elif vexpr in VIRT:
            vr = VIRT[vexpr]
        else:
            die("entry %s: vr not understood: %r" % (alias, vexpr))
        rows.append("⟨%d, 0x%04X, 0x%04X, %s, %d⟩" % (k, g, e, nat(alias), vr))
        refs.append("(%s, %d)" % (nat(ref), wrapped))
        keys.append(g * 65536 + e)
        aliases.append(natv(alias))

    out = ["import DicomModel.Model.DictTypes",
           "/-! GENERATED by translators/dict.py from dictionary-std/src/tags.rs (`ENTRIES`, source order). Do not edit.",
           "Row = ⟨kind (0 Single, 1 Group100, 2 Element100), group, element, keyword as Nat, vr code⟩ -/",
           "namespace Dicom.Dict.Gen"]
    chunked("entries", "Row", rows, out)
    out.append("end Dicom.Dict.Gen\n")
    write_if_changed(os.path.join(GEN, "Dict.lean"), "\n".join(out))

    out = ["import DicomModel.Model.DictTypes",
           "/-! GENERATED by translators/dict.py from dictionary-std/src/tags.rs (`pub const` declarations with their doc",
           "lines, source order; and the constant each `ENTRIES` row refers to). Do not edit.",
           "Const = ⟨name, kind (0 Single,1 Group100,2 Element100,3 plain Tag), group, element, doc keyword, doc group lo, hi, doc element lo, hi⟩ -/",
           "namespace Dicom.Dict.Gen"]
    chunked("consts", "Const", ["⟨%s, %d, 0x%04X, 0x%04X, %s, 0x%04X, 0x%04X, 0x%04X, 0x%04X⟩" % (nat(c[0]), c[1], c[2], c[3], nat(c[4]), c[5], c[6], c[7], c[8]) for c in consts], out)
    chunked("entryRefs", "(Nat × Nat)", refs, out)
    out.append("end Dicom.Dict.Gen\n")
    write_if_changed(os.path.join(GEN, "DictConsts.lean"), "\n".join(out))

    out = ["import DicomModel.Model.DictTypes",
           "/-! GENERATED by translators/dict.py. Do not edit. Certificates (search trees value -> position in the",
           "source-order table) from which Lean proves that the inner tags, the keywords and the constant names",
           "of tags.rs have no duplicates. -/",
           "namespace Dicom.Dict.Gen"]
    tree("keyTree", keys, out)
    tree("aliasTree", aliases, out)
    tree("constNameTree", [natv(c[0]) for c in consts], out)
    out.append("end Dicom.Dict.Gen\n")
    write_if_changed(os.path.join(GEN, "DictCert.lean"), "\n".join(out))
    return len(rows), len(consts)


# ------------------------------------------------------------------ uids.rs
UID_TYPES = ["SopClass", "MetaSopClass", "TransferSyntax", "WellKnownSopInstance", "DicomUidsAsCodingScheme",
             "CodingScheme", "ApplicationContextName", "ServiceClass", "ApplicationHostingModel",
             "MappingResource", "LdapOid", "SynchronizationFrameOfReference"]
UID_TYPE_DOC = ["SOP Class", "Meta SOP Class", "Transfer Syntax", "Well-known SOP Instance",
                "DICOM UIDs as a Coding Scheme", "Coding Scheme", "Application Context Name", "Service Class",
                "Application Hosting Model", "Mapping Resource", "LDAP OID", "Synchronization Frame of Reference"]


def uids():
    src = open(os.path.join(REPO, "dictionary-std", "src", "uids.rs")).read()
    consts = []
    n_const_lines = len(re.findall(r"^\s*pub const \w+\s*:\s*&str", src, re.M))
    for m in re.finditer(r"^///[ \t]*(.*)\n((?:[ \t]*#\[[^\n]*\]\n)*)[ \t]*pub const (\w+)\s*:\s*&str\s*=\s*\"([^\"\\]*)\";[ \t]*$", src, re.M):
        doc, _a, name, val = m.groups()
        ty, sep, dname = doc.partition(": ")
        if not sep or ty not in UID_TYPE_DOC:
            die("uid constant %s: doc line not understood: %r" % (name, doc))
        consts.append("⟨%s, %d, %s, %s⟩" % (nat(name), UID_TYPE_DOC.index(ty), nat(dname), nat(val)))
    if len(consts) != n_const_lines:
        die("uids.rs: %d `pub const` lines but %d understood" % (n_const_lines, len(consts)))
    em = re.search(r"const SOP_CLASSES\s*:\s*&\[E\]\s*=\s*&\[\n(.*?)^\];", src, re.M | re.S)
    if not em:
        die("uids.rs: SOP_CLASSES table not found")
    rows, suids, saliases = [], [], []
    for line in em.group(1).split("\n"):
        if not line.strip() or line.strip().startswith("//"):
            continue
        m = re.fullmatch(r"\s*E::new\(\"([^\"\\]*)\", \"([^\"\\]*)\", \"([^\"\\]*)\", (\w+), (true|false)\),?\s*(?://.*)?", line)
        if not m or m.group(4) not in UID_TYPES:
            die("uids.rs: SOP_CLASSES line not understood: %r" % line)
        uid, name, alias, ty, ret = m.groups()
        rows.append("⟨%s, %s, %s, %d, %d⟩" % (nat(uid), nat(name), nat(alias), UID_TYPES.index(ty), 1 if ret == "true" else 0))
        suids.append(natv(uid))
        saliases.append(natv(alias))
    out = ["import DicomModel.Model.DictTypes",
           "/-! GENERATED by translators/dict.py from dictionary-std/src/uids.rs. Do not edit.",
           "UidRow = ⟨uid, name, keyword, type index, retired⟩ (`SOP_CLASSES`, source order);",
           "UidConst = ⟨constant name, doc type index, doc name, value⟩ (all `pub const … : &str`) -/",
           "namespace Dicom.Dict.Gen"]
    chunked("sopClasses", "UidRow", rows, out)
    chunked("uidConsts", "UidConst", consts, out)
    tree("sopUidTree", suids, out)
    tree("sopAliasTree", saliases, out)
    out.append("end Dicom.Dict.Gen\n")
    write_if_changed(os.path.join(GEN, "Uids.lean"), "\n".join(out))
    return len(rows), len(consts)


if __name__ == "__main__":
    a = tags()
    b = uids()
    print("dict.py: %d entries, %d tag constants, %d SOP classes, %d uid constants" % (a + b))
